"""C09 - grain refinement recovers orientation, cell and position from simulated data.

Oracle: independent forward simulator (vlib.sim / vlib.geom): peaks with
ground-truth (grain id, hkl) from known strained grains at known positions, for
geometry classes with flips, tilts, wedge, chi, omegasign.  The real
refinegrains flow (files in, files out) is run from perturbed starts and the
refined values, labels and saved files are compared with the truth; the saved
per-peak columns are recomputed with the harness geometry model from the saved
grain (translation, UBI) and the saved omega.

Every dimension of a scenario is drawn from the scenario's own generator
rng(seed, "C09", idx) (plus two small tables of forced classes so that every
class is present in the quick tier); a replay needs only (seed, idx, use_script).
"""
import contextlib, io, os, shutil, subprocess, sys, tempfile
import numpy as np
from .. import xtal, sim, geom
from ..common import rng, WORK, PY, REPO

TECHNIQUE = ("runtime ground-truth monitor: harness forward simulator (closed-form Laue solution, ray/detector intersection) "
             "-> real refinegrains file flow (loadparameters/loadfiltered/readubis/[makeuniq]/generate_grains/refinepositions/"
             "refineubis/savegrains, and scripts/makemap.py with its -l/-s/-F/sort options) -> refined UBI/translation/labels/"
             "saved h,k,l compared with the generating values; saved per-peak columns (gx,gy,gz,tth/eta/omegacalc_per_grain,"
             "hr,kr,lr,drlv2) and npks/nuniq recomputed with the harness geometry model from the saved grain")
LEVEL_TEXT = ("Exploration: 1..5 strained grains (<=5e-3) at |t|<=500um, geometry classes of C01 (flips, pixel signs, tilts, wedge, chi, "
              "omegasign), omega floated (slop 0.05/0.25/0.5) or as observed, tolerance 0.05/0.1/0.2, cells cubic F/I, tetragonal, "
              "orthorhombic, hexagonal, monoclinic, triclinic; triclinic or matching latticesymmetry constraint (then symmetry-preserving "
              "strain), optional makeuniq, 5-15% unindexable junk peaks, stale t_x,t_y,t_z in the parameter file, start grains without "
              "translations, xc/yc columns, sorted/unsorted grain files; all drawn independently per scenario. Starts 0.1-0.5 deg (scaled "
              "with tolerance) and <=50um off; exact peaks, so the optimum is the truth. Every peak unambiguous under the *starting* grains "
              "must carry its generator's label (junk: -1, hkl 0); scenarios with all labels right are judged on the optimiser's objective "
              "(excess <= 2 in 1e6<drlv2>), UBI (1e-4 rel), translation (25um; run-level median <= 0.4um, p90 <= 1um; UBI median <= 2.5e-7, "
              "p90 <= 1.2e-6), saved hkl = simulated hkl (up to the makeuniq operator, which must be a lattice automorphism); saved columns "
              "= harness model of the saved grain to storage/print precision; saved files = in-memory values.")
LEVEL_NOTE = ("Trusts the harness simulator (cross-checked against the C01 model to 2e-15) and the stated optimiser tolerances "
              "(empirical over ~5000 grains, two thorough runs: worst observed UBI 1.3e-5 / 10um / objective excess 0.31; per-grain caps 2.5-8x above, run-level limits 3x above the largest run-level values); peak files carry 4 decimals. "
              "Not covered (outside the statement): refinegrains.fit()/fitgrain.py (global geometry refinement), filtergrain.py, "
              "noisy peaks.")

RULE = ("a scenario = (geometry class bits+flip, n grains, OmFloat/slop, tolerance, cell kind, constraint, uniq, junk, translation "
        "source, column names, sort, route); non-trivial = geometry has >= 2 switches on or >= 2 grains; distinct = the tuple of "
        "these dimensions")

# (cell kind, centring, refinegrains.latticesymmetry / sym_u group name)
CELLS = [("cubic", "F", "cubic"), ("cubic", "I", "cubic"), ("tetragonal", "P", "tetragonal"),
         ("orthorhombic", "P", "orthorhombic"), ("hexagonal", "P", "hexagonal"), ("monoclinic", "P", "monoclinic_b"),
         ("triclinic", "P", None)]
CELL_W = [0.34, 0.06, 0.12, 0.12, 0.12, 0.12, 0.12]

# forced classes (everything not named is still drawn from the scenario's rng).  in-memory route: idx 8..
FORCED_MEM = [
    dict(ng=5, omfloat=True, cell=0, lattice=False, plainubi=False, tol=0.1),
    dict(ng=3, omfloat=True, cell=0, lattice=False, plainubi=False, tol=0.1),
    dict(ng=1, omfloat=True),
    dict(ng=1, omfloat=False),
    dict(ng=3, omfloat=False, cell=0, lattice=False, plainubi=False, tol=0.1),
    dict(ng=2, cell=2, lattice=True, plainubi=False),
    dict(ng=1, cell=4, lattice=True),
    dict(ng=2, cell=6, plainubi=False),
    dict(ng=2, junk=True, plainubi=False, cell=0),
    dict(ng=1, junk=True, cell=3),
    dict(ng=1, plainubi=True),
    dict(ng=2, plainubi=True, cell=0, tol=0.1),
    dict(ng=2, partrans=True, plainubi=False),
    dict(ng=1, xcyc=True),
    dict(ng=3, sort=True, plainubi=False, cell=0, tol=0.1),
    dict(ng=1, uniq=True, cell=0),
    dict(ng=2, uniq=True, cell=2, plainubi=False),
    dict(ng=1, cell=5, lattice=True),
    dict(ng=1, cell=1, lattice=True, omfloat=True),
    dict(ng=2, omfloat=True, slop=0.05, plainubi=False),
    dict(ng=2, omfloat=True, slop=0.5, plainubi=False),
    dict(ng=1, tol=0.05),
    dict(ng=2, tol=0.2, cell=0, plainubi=False),
    dict(ng=1, uniq=True, cell=4),
]
# script route: idx 1000..
FORCED_SCRIPT = [
    dict(ng=3, sort=True, junk=True, plainubi=False, cell=0, tol=0.1),
    dict(ng=2, sort=False, uniq=True, cell=0, plainubi=False),
    dict(ng=2, sort=True, cell=2, lattice=True, plainubi=False),
    dict(ng=1, junk=True, omfloat=False),
    dict(ng=1, plainubi=True, partrans=False),
    dict(ng=2, sort=True, cell=4, uniq=True, plainubi=False),
]


def quiet():
    return contextlib.redirect_stdout(io.StringIO())


def objective_terms(p, sc, fc, om, ubi, t, omfloat):
    """per-peak squared hkl error with the harness geometry model; with omfloat the component of the
    g error along the omega rotation direction (z x g) is removed first"""
    g = np.asarray(geom.forward(p, sc, fc, om, t)["g"], float)
    ubi = np.asarray(ubi, float)
    h = g @ ubi.T
    ih = np.rint(h)
    dg = g - ih @ np.linalg.inv(ubi).T
    if omfloat:
        e = np.cross(np.array([0, 0, 1.0]), g)
        nrm = np.sqrt((e * e).sum(axis=1))
        e = e / np.where(nrm > 0, nrm, 1)[:, None]
        dg = dg - (dg * e).sum(axis=1)[:, None] * e
    d = dg @ ubi.T
    return (d * d).sum(axis=1)


def hkl_err(p, sc, fc, om, ubi, t):
    """(n,3) h - rint(h) of the peaks for one grain, harness geometry model"""
    g = np.asarray(geom.forward(p, sc, fc, om, t)["g"], float)
    h = g @ np.asarray(ubi, float).T
    return h - np.rint(h)


def e_under(dh, M):
    """squared hkl error of the same peaks when the lattice is re-described by the integer operator M
    (UBI -> M.UBI, h -> M.h): the error vector becomes M.dh, re-reduced to the nearest lattice point"""
    x = dh @ np.asarray(M, float).T
    x = x - np.rint(x)
    return (x * x).sum(axis=1)


def lattice_rotations(G0):
    """all integer matrices with entries in {-1,0,1}, det +1, M.G0.M^T = G0: the proper symmetry operations of
    the lattice with metric G0 acting on the rows of a UBI (brute force, independent of ImageD11.sym_u)"""
    import itertools
    out = []
    rows = [np.array(v, float) for v in itertools.product((-1, 0, 1), repeat=3) if any(v)]
    scale = np.abs(G0).max()
    cand = [[r_ for r_ in rows if abs(r_ @ G0 @ r_ - G0[i, i]) < 1e-9 * scale] for i in range(3)]
    for a in cand[0]:
        for b in cand[1]:
            if abs(a @ G0 @ b - G0[0, 1]) > 1e-9 * scale:
                continue
            for c_ in cand[2]:
                M = np.array([a, b, c_])
                if abs(np.linalg.det(M) - 1) < 1e-9 and np.abs(M @ G0 @ M.T - G0).max() < 1e-9 * scale:
                    out.append(M)
    return out


def as_written(x, fmt):
    """the value the library reads back from a text file written with fmt"""
    return np.array([float(fmt % v) for v in np.ravel(x)]).reshape(np.shape(x))


def model_columns(p, sc, fc, om, t, ubi, omega_signed_for_g):
    """What savegrains must have stored for the peaks of one grain, from the harness geometry model:
    tth/eta are taken with the grain origin at the *observed* omega (that is what the flow documents:
    'tth, eta do not change much'); g is rotated back with omega_signed_for_g (observed*omegasign, or the
    floated omega).  Returns tth, eta, g (n,3), hkl_real (n,3) in float64."""
    out = geom.forward(p, sc, fc, om, t)
    WC = geom.Wmat(p["wedge"]) @ geom.Cmat(p["chi"])
    v = out["k"] @ WC
    Om = geom.omega_mats(np.asarray(omega_signed_for_g, dtype=geom.F))
    g = np.asarray(np.einsum("nji,nj->ni", Om, v), float)
    d = np.asarray(out["d"], float)
    lever = (np.sqrt((d * d).sum(axis=1)), np.hypot(d[:, 1], d[:, 2]))   # ray length, distance from the beam axis
    return np.asarray(out["tth"], float), np.asarray(out["eta"], float), g, g @ np.asarray(ubi, float).T, lever


def make_cell(r, kind):
    if kind == "cubic":
        return xtal.random_cell(r, "cubic", 3.6, 4.2)
    if kind == "triclinic":
        while True:
            a, b, c = r.uniform(3.2, 5.5, 3)
            al, be, ga = r.uniform(75, 105, 3)
            cell = [float(x) for x in (a, b, c, al, be, ga)]
            if xtal.volume_ok(cell, 0.5):
                return cell
    if kind == "monoclinic":
        a, b, c = r.uniform(3.2, 5.5, 3)
        return [float(a), float(b), float(c), 90.0, float(r.uniform(93, 110)), 90.0]
    return xtal.random_cell(r, kind, 3.2, 5.5)


def strained_cell(r, cell, kind, mag=5e-3):
    """a cell of the same symmetry as `cell` whose metric differs by a strain <= mag"""
    a, b, c, al, be, ga = cell
    e = r.uniform(-mag, mag, 4)
    if kind == "cubic":
        return [a * (1 + e[0])] * 3 + [90.0, 90.0, 90.0]
    if kind == "tetragonal":
        return [a * (1 + e[0]), a * (1 + e[0]), c * (1 + e[2]), 90.0, 90.0, 90.0]
    if kind == "hexagonal":
        return [a * (1 + e[0]), a * (1 + e[0]), c * (1 + e[2]), 90.0, 90.0, 120.0]
    if kind == "orthorhombic":
        return [a * (1 + e[0]), b * (1 + e[1]), c * (1 + e[2]), 90.0, 90.0, 90.0]
    if kind == "monoclinic":
        return [a * (1 + e[0]), b * (1 + e[1]), c * (1 + e[2]), 90.0, be + float(np.degrees(e[3])) * 0.5, 90.0]
    raise ValueError(kind)


def draw_config(seed, idx, use_script=False):
    """All dimensions of scenario idx; pure harness code (also used to tabulate coverage)."""
    r = rng(seed, "C09", idx)
    bits = int(r.integers(2048)) & ~(0b111 << 6)
    if idx < 8:
        bits = [0, 0b11111, 1 << 5, (1 << 9) | (1 << 10), 0b11000, 0b00111, (1 << 5) | 0b11000,
                0b11111 | (1 << 5) | (3 << 9)][idx]
    c = dict(index=idx, use_script=bool(use_script), bits=bits)
    c["flip"] = int(r.integers(8))
    c["ng"] = int(r.choice([1, 2, 3, 5]))
    c["omfloat"] = bool(r.integers(2))
    c["slop"] = float(r.choice([0.05, 0.25, 0.5]))
    c["tol"] = float(r.choice([0.05, 0.1, 0.1, 0.2]))
    c["cell"] = int(r.choice(len(CELLS), p=CELL_W))
    c["lattice"] = bool(r.random() < 0.35)
    c["uniq"] = bool(r.random() < 0.25)
    c["junk"] = bool(r.random() < 0.5)
    c["partrans"] = bool(r.random() < 0.4)
    c["plainubi"] = bool(r.random() < 0.12)
    c["xcyc"] = bool(r.random() < 0.2)
    c["sort"] = bool(r.random() < 0.5)
    c["newflt"] = bool(r.random() < 0.5)
    forced = None
    if use_script and 0 <= idx - 1000 < len(FORCED_SCRIPT):
        forced = FORCED_SCRIPT[idx - 1000]
    elif not use_script and 0 <= idx - 8 < len(FORCED_MEM):
        forced = FORCED_MEM[idx - 8]
    if forced:
        c.update(forced)
    if CELLS[c["cell"]][2] is None:
        c["lattice"] = False
        c["uniq"] = False
    if c["junk"] and use_script:
        c["newflt"] = True
    return c, r


def one_scenario(run, seed, idx, mods, use_script=False):
    refinegrains, columnfile, parameters, grain = mods
    c, r = draw_config(seed, idx, use_script)
    bits, flip, ng, omfloat, tol, slop = c["bits"], c["flip"], c["ng"], c["omfloat"], c["tol"], c["slop"]
    kind, centring, symname = CELLS[c["cell"]]
    p = sim.default_pars(r, flip=flip, bits=bits)
    cell = make_cell(r, kind)
    B = xtal.Bmat(cell)
    # --- the true grains
    if c["plainubi"]:
        # start file without translations: every grain starts at the parameter file's t_x,t_y,t_z
        t_common = r.uniform(-400, 400, 3)
        t_common[2] = r.uniform(-100, 100)
    grains = []
    for g in range(ng):
        if c["lattice"]:
            # the symmetry-constrained fit can only return a cell of that symmetry: the truth must have it
            UB = xtal.random_rotation(r) @ xtal.Bmat(strained_cell(r, cell, kind))
        else:
            UB = xtal.random_rotation(r) @ xtal.random_sym_stretch(r, 5e-3) @ B
        if c["plainubi"]:
            t = t_common + r.uniform(-40, 40, 3)
        else:
            t = r.uniform(-500, 500, 3)
            t[2] = r.uniform(-150, 150)
        grains.append((UB, t))
    dsm = min(sim.dsmax_on_detector(p), 1.15)
    hk, ds = sim.make_hkls(cell, centring, dsm)
    if len(hk) > 350:    # keep the work per grain bounded for the larger P cells
        hk = hk[ds < np.sort(ds)[350]]
    s = sim.simulate(p, grains, hk)
    if s is None or min(np.bincount(s["gid"], minlength=ng)) < 25:
        run.count("scenarios_skipped_few_peaks")
        return
    nreal = len(s["sc"])
    # --- perturbed starting grains
    scale = min(1.0, tol / 0.1)
    start = []
    for (UB, t) in grains:
        dR = xtal.rot_axis_angle(r.normal(size=3), np.radians(float(r.uniform(0.1, 0.5)) * scale))
        if c["plainubi"]:
            start.append(grain.grain(np.linalg.inv(dR @ UB), translation=None))
        else:
            start.append(grain.grain(np.linalg.inv(dR @ UB), translation=t + r.uniform(-50, 50, 3)))
    # what the library will read from the start file (UBI "%.9g", translation "%g"; parameter file: repr)
    start_u = [as_written(g_.ubi, "%.9g") for g_ in start]
    start_t = [t_common if c["plainubi"] else as_written(g_.translation, "%g") for g_ in start]
    # makeuniq re-describes each start lattice by some proper symmetry operation M of the cell; squared hkl errors
    # are basis dependent when M is not orthogonal (hexagonal), so peak classes are decided for the worst case
    # over all proper lattice rotations (brute-force set, independent of sym_u)
    G0 = xtal.metric(cell)
    auts = lattice_rotations(G0) if c["uniq"] else [np.eye(3)]

    def e_range(sc_, fc_, om_, ubi_, t_):
        dh = hkl_err(p, sc_, fc_, om_, ubi_, t_)
        es = np.array([e_under(dh, M_) for M_ in auts])
        return es.min(axis=0), es.max(axis=0)
    # --- junk peaks: nowhere near any lattice point of any grain (start or true), so never indexable
    sc, fc, om, gid, hkl = s["sc"], s["fc"], s["omega"], s["gid"], s["hkl"]
    njunk = 0
    if c["junk"]:
        want = max(3, int(nreal * float(r.uniform(0.05, 0.15))))
        jsc, jfc, jom = r.uniform(0, 2048, 6 * want), r.uniform(0, 2048, 6 * want), r.uniform(-180, 180, 6 * want)
        worst = np.full(6 * want, 9.0)
        for g in range(ng):
            worst = np.minimum(worst, e_range(jsc, jfc, jom, start_u[g], start_t[g])[0])
            worst = np.minimum(worst, e_range(jsc, jfc, jom, np.linalg.inv(grains[g][0]), grains[g][1])[0])
        keep = np.nonzero(worst > (1.3 * tol) ** 2)[0][:want]
        njunk = len(keep)
        sc = np.concatenate([sc, jsc[keep]])
        fc = np.concatenate([fc, jfc[keep]])
        om = np.concatenate([om, jom[keep]])
        gid = np.concatenate([gid, np.full(njunk, -1)])
        hkl = np.concatenate([hkl, np.zeros((njunk, 3), int)])
    n = nreal + njunk
    perm = r.permutation(n)
    if idx % 7 == 3:
        # a peak table as a frame-by-frame peak search writes it: rows in omega order and several rows with exactly the same
        # omega next to each other (here: a third of the rows are written twice).  Anything that carries per-row state from
        # the previous row (also across the chunks OpenMP gives to its threads) sees equal neighbours here.
        rep = np.where(rng(seed, "C09", "frameorder", idx).random(n) < 0.33, 2, 1)
        sc, fc, om, gid, hkl = (np.repeat(a, rep, axis=0) for a in (sc, fc, om, gid, hkl))
        n = len(sc)
        perm = np.argsort(om, kind="stable")
        run.count("flows_in_frame_order_with_repeated_omega")
    sc, fc, om, gid, hkl = sc[perm], fc[perm], om[perm], gid[perm], hkl[perm]
    real = gid >= 0
    # stale global translation in the parameter file (must be ignored: the start grains carry their own)
    pfile = dict(p)
    if c["plainubi"]:
        pfile.update(t_x=float(t_common[0]), t_y=float(t_common[1]), t_z=float(t_common[2]))
    elif c["partrans"]:
        pfile.update(t_x=float(r.uniform(-400, 400)), t_y=float(r.uniform(-400, 400)), t_z=float(r.uniform(-150, 150)))
    desc = dict(c, npeaks=n, njunk=njunk, pars=p, cell=cell)
    nsw = bin(bits).count("1")
    dims = (flip, bits, ng, omfloat, slop, tol, c["cell"], c["lattice"], c["uniq"], njunk > 0, c["partrans"], c["plainubi"],
            c["xcyc"], c["sort"], use_script)
    run.case(dims, nontrivial=(nsw >= 2 or ng >= 2),
             sample=dict(index=idx, flip=flip, bits=bits, ngrains=ng, npeaks=n, njunk=njunk, omfloat=omfloat, slop=slop, tol=tol,
                         cell=kind + centring, lattice=c["lattice"], uniq=c["uniq"], plainubi=c["plainubi"], xcyc=c["xcyc"],
                         sort=c["sort"], use_script=use_script))

    def V(key, what, **kw):
        run.violation(key, what, dict(desc, **kw))

    tmp = tempfile.mkdtemp(prefix="c09_", dir=os.path.join(WORK, "tmp"))
    try:
        flt = os.path.join(tmp, "peaks.flt")
        par = os.path.join(tmp, "geo.par")
        ubi = os.path.join(tmp, "start.ubi")
        out = os.path.join(tmp, "out.map")
        nflt = os.path.join(tmp, "unindexed.flt")
        xn, yn = ("xc", "yc") if c["xcyc"] else ("sc", "fc")
        cf = columnfile.colfile_from_dict({xn: sc, yn: fc, "omega": om,
                                           "Number_of_pixels": np.full(n, 10.0), "avg_intensity": np.full(n, 100.0)})
        cf.writefile(flt)
        # what the library reads back: sc, fc, omega carry 4 decimals (xc, yc: 6)
        pfmt = "%f" if c["xcyc"] else "%.4f"
        scr_, fcr_, omr_ = as_written(sc, pfmt), as_written(fc, pfmt), as_written(om, "%.4f")
        pp = parameters.parameters(**dict(pfile, fit_tolerance=0.5))
        pp.saveparameters(par)
        grain.write_grain_file(ubi, start)
        # Is the single-pass assignment well posed, peak by peak?  The flow fixes the labels with the
        # *starting* grains (arg-min of the squared hkl error over the grains within tolerance) before it
        # refines (DESIGN.md Corrections).  A peak is 'clear' when its generator is inside the tolerance
        # (10% margin) and no other grain is both inside the tolerance (10% margin) and within a factor 2 of
        # the generator's error.  The harness and library errors agree to ~1e-10 relative, so a clear peak
        # has exactly one possible label.
        dh_start = [hkl_err(p, scr_, fcr_, omr_, start_u[g], start_t[g]) for g in range(ng)]
        e_all = np.array([[e_under(dh_start[g], M_) for M_ in auts] for g in range(ng)])     # (ng, nM, n)
        e_lo, e_hi = e_all.min(axis=1), e_all.max(axis=1)
        own = np.where(real, e_hi[np.clip(gid, 0, None), np.arange(n)], 9.0)
        masked = e_lo.copy()
        masked[np.clip(gid, 0, None)[real], np.arange(n)[real]] = 9.0
        other = masked.min(axis=0)
        clear = np.where(real, (own < 0.9 * tol * tol) & ~((other < 1.1 * tol * tol) & (other < 2.0 * own)),
                         other > 1.1 * tol * tol)
        nunclear = int((~clear).sum())
        run.count("peaks_unclear_at_start", nunclear)
        if use_script:
            cmd = [PY, os.path.join(REPO, "scripts", "makemap.py"), "-p", par, "-u", ubi, "-U", out, "-f", flt,
                   "-t", str(tol), "--omega_slop", str(slop)]
            if not c["sort"]:
                cmd.append("--no_sort")
            if not omfloat:
                cmd.append("--omega_no_float")
            if c["lattice"]:
                cmd += ["-l", symname]
            if c["uniq"]:
                cmd += ["-s", symname]
            if c["newflt"]:
                cmd += ["-F", nflt]
            pr = subprocess.run(cmd, cwd=tmp, stdout=subprocess.PIPE, stderr=subprocess.STDOUT, timeout=600)
            run.count("makemap_script_runs")
            if pr.returncode != 0 or not os.path.exists(out):
                V("makemap:failed", "scripts/makemap.py failed: %s" % pr.stdout.decode(errors="replace")[-400:])
                return
            mem = None
        else:
            try:
                with quiet():
                    kw = dict(latticesymmetry=getattr(refinegrains, symname)) if c["lattice"] else {}
                    o = refinegrains.refinegrains(tolerance=tol, OmFloat=omfloat, OmSlop=slop, **kw)
                    o.loadparameters(par)
                    o.loadfiltered(flt)
                    o.readubis(ubi)
                    if c["uniq"]:
                        o.makeuniq(symname)
                    o.generate_grains()
                    o.refinepositions()
                    o.refineubis(quiet=True)
                    o.savegrains(out, sort_npks=c["sort"])
                    o.scandata[flt].writefile(flt + ".new")
            except Exception as e:
                # the inputs are valid files of well separated, right-handed grains: the flow has no reason to raise
                V("flow:exception", "the refinement flow raised %s: %s" % (type(e).__name__, str(e)[:200]))
                return
            mem = o
        run.count("refinement_flows")
        for k_ in ("lattice", "uniq", "plainubi", "partrans", "xcyc", "sort"):
            if c[k_]:
                run.count("flows_" + k_)
        if kind != "cubic":
            run.count("flows_noncubic")
        saved_list = grain.read_grain_file(out)
        if len(saved_list) != ng:
            V("saved:grain-count", "saved %d grains, expected %d" % (len(saved_list), ng))
            return
        # --- which saved grain is which?  The peak labels are the positions in the *input* grain file; the
        # saved file may be sorted by npks, and then only the saved name ('<input position>:<peak file>')
        # links a label to a grain.
        order = []
        for sg in saved_list:
            try:
                order.append(int(str(getattr(sg, "name", "")).split(":")[0]))
            except ValueError:
                order.append(None)
        if sorted(o_ for o_ in order if o_ is not None) != list(range(ng)):
            V("saved:names", "saved grain names %r do not identify the %d input grains (labels cannot be linked to grains)"
              % ([getattr(sg, "name", None) for sg in saved_list], ng))
            return
        saved = [None] * ng
        for pos, k_ in enumerate(order):
            saved[k_] = saved_list[pos]
        npk_saved = [int(float(sg.npks)) for sg in saved_list]
        if c["sort"]:
            run.count("sorted_saves_checked")
            if any(npk_saved[i] < npk_saved[i + 1] for i in range(ng - 1)):
                V("saved:sort-order", "sort_npks: saved npks sequence %r is not non-increasing" % (npk_saved,))
        elif order != list(range(ng)):
            V("saved:order", "unsorted save: grains written in order %r" % (order,))
        new = columnfile.columnfile(flt + ".new")
        if new.nrows != n:
            V("saved:rows", "peak file rows %d != %d" % (new.nrows, n))
            return
        lab = np.asarray(new.labels).astype(int)
        run.count("peaks_checked", n)
        # --- labels vs generator, peak by peak (row order of the file is preserved)
        bad = clear & (lab != gid)
        run.count("clear_peaks_label_checked", int(clear.sum()))
        run.count("junk_peaks_checked", int((clear & ~real).sum()))
        if bad.any():
            k = int(np.nonzero(bad)[0][0])
            if real[k]:
                V("labels:not-generator", "peak %d simulated from grain %d is labelled %d (%d of %d clear peaks wrong)"
                  % (k, gid[k], lab[k], int(bad.sum()), int(clear.sum())), peak=k)
            else:
                V("labels:junk-indexed", "junk peak %d (>= 1.3 tol from every grain) is labelled %d (%d junk peaks labelled)"
                  % (k, lab[k], int((bad & ~real).sum())), peak=k)
        okl = bool(np.array_equal(lab, gid))
        if not okl:
            run.count("scenarios_with_wrong_labels")
            run.count("mislabelled_unclear_peaks", int((~clear & (lab != gid)).sum()))
        hs = np.array([new.h, new.k, new.l]).T
        hrs = np.array([new.hr, new.kr, new.lr]).T
        unl = lab < 0
        if unl.any() and (np.abs(hs[unl]).max() != 0 or np.abs(hrs[unl]).max() != 0):
            k = int(np.nonzero(unl & ((np.abs(hs) + np.abs(hrs)).sum(axis=1) != 0))[0][0])
            V("saved:hkl-unindexed", "unindexed peak %d carries h,k,l %r hr,kr,lr %r instead of zeros"
              % (k, hs[k].tolist(), hrs[k].tolist()), peak=k)
        # --- the -F file must hold exactly the peaks no grain indexes: the junk, in order
        if use_script and c["newflt"] and okl:
            run.count("newflt_files_checked")
            if not os.path.exists(nflt):
                V("saved:newflt", "makemap -F did not write the unindexed-peaks file")
            else:
                # parsed by hand (an empty table is a legitimate content here)
                titles, rows = [], []
                with open(nflt) as fh:
                    for line in fh:
                        if line.startswith("#"):
                            if "=" not in line:
                                titles = line[1:].split()
                        elif line.strip():
                            rows.append([float(x) for x in line.split()])
                rows = np.array(rows, float).reshape(len(rows), len(titles))
                got_rows = rows[:, [titles.index("sc"), titles.index("fc"), titles.index("omega")]]
                want_rows = np.array([scr_, fcr_, omr_]).T[~real]
                if got_rows.shape != want_rows.shape or (len(want_rows) and np.abs(got_rows - want_rows).max() > 1.01e-4):
                    V("saved:newflt", "makemap -F file has %d rows, expected exactly the %d unindexable peaks"
                      % (len(got_rows), len(want_rows)))
        # --- recovered values.  "Within the optimiser's numerical tolerance": the position search is a
        # Nelder-Mead simplex capped at 100 iterations that starts with 0.2um steps and keeps the
        # last *evaluated* point; measured on the unchanged tree over 540 unambiguous grains from
        # starts 50um/0.5deg off: objective excess <= 0.031 (1e6.<drlv2>), translation <= 3.4um,
        # UBI <= 6e-6 relative.  Thorough run (1137 grains): 0.24 / 8.2um / 1.1e-5.  Per-grain caps are set ~3-8x above that
        # and the run is additionally judged on the median/90th percentile (DESIGN.md Corrections);
        # the worst values of every run are written to the evidence.
        # Recovery is judged whenever every peak carries its generator's label: then the optimiser was given
        # exactly the ideal problem, whose optimum (exact data) is the truth.
        sign = float(p["omegasign"])
        for g in range(ng):
            UB_t, t_t = grains[g]
            ubi_t = np.linalg.inv(UB_t)
            got = saved[g]
            run.count("grains_checked")
            mine = lab == g
            nmine = int(mine.sum())
            if int(float(got.npks)) != nmine:
                V("saved:npks", "saved npks %d != labelled peaks %d" % (int(float(got.npks)), nmine), grain=g)
            if nmine == 0:
                continue
            # ---- saved per-peak values of this grain = harness model of the saved grain (any scenario)
            for src in (("mem", "file") if mem is not None else ("file",)):
                if src == "mem":
                    col = mem.scandata[flt]
                    gm = mem.grains[(g, flt)]
                    t_s, ubi_s = np.array(gm.translation, float), np.array(gm.ubi, float)
                else:
                    col = new
                    t_s, ubi_s = np.array(got.translation, float), np.array(got.ubi, float)
                sc_s, fc_s, om_s = [np.asarray(getattr(col, k_), float)[mine] for k_ in ("sc", "fc", "omega")]
                if src == "mem" and (np.abs(sc_s - scr_[mine]).max() > 1e-9 or np.abs(fc_s - fcr_[mine]).max() > 1e-9
                                     or np.abs(om_s - omr_[mine]).max() > 1e-9):
                    V("saved:peaks-changed", "grain %d: in-memory sc/fc/omega differ from the values in the input file" % g, grain=g)
                    break
                if src == "file":
                    # the output file prints sc, fc with 4 decimals; the flow used the input values
                    sc_s, fc_s, om_s = scr_[mine], fcr_[mine], omr_[mine]
                ocalc = np.asarray(col.omegacalc_per_grain, float)[mine]
                if omfloat:
                    d_om = np.asarray(geom.angdiff(ocalc, om_s * sign), float)
                    # floated omega stays within the slop of the observed one (1e-6: %f print of the column)
                    if np.abs(d_om).max() > slop + 1.1e-6:
                        V("saved:omegacalc-slop", "grain %d: saved omegacalc_per_grain is %.6g deg from the observed omega, slop %g (%s)"
                          % (g, float(np.abs(d_om).max()), slop, src), grain=g)
                    om_g = ocalc
                else:
                    om_g = om_s * sign
                tth_m, eta_m, g_m, hr_m, lever = model_columns(p, sc_s, fc_s, om_s, t_s, ubi_s, om_g)
                # tolerances = storage/print precision of each column (+ 1e-9 for double vs long double):
                #  gx,gy,gz   float64 in memory; "%.4f" in the file -> 5e-5 (+ 1e-7: saved translation %g, omegacalc %f)
                #  tth/eta_per_grain  float32 columns (rel 2^-24 = 6e-8, taken twice) ; "%f" -> 5e-7; the file translation
                #             is printed "%g" (6 digits): an origin shift dt moves tth by dt/ray length, eta by dt/(distance from axis)
                #  hr,kr,lr   float32 columns; hr,kr "%.4f", lr "%f"; the file UBI carries 9 digits (5e-10 rel)
                f32 = 1.2e-7
                gtol = 1e-9 if src == "mem" else 5.01e-5 + 1e-7
                gs = np.array([col.gx, col.gy, col.gz], float).T[mine]
                e_g = float(np.abs(gs - g_m).max())
                run.setmax("worst_saved_g_err_" + src, e_g)
                if not e_g <= gtol:
                    V("saved:gvector", "grain %d: saved gx,gy,gz differ from the harness model of the saved grain by %.3g (allowed %.3g, %s)"
                      % (g, e_g, gtol, src), grain=g)
                tt = np.asarray(col.tth_per_grain, float)[mine]
                ee = np.asarray(col.eta_per_grain, float)[mine]
                dt = 0.0
                if src == "file":
                    dt = float(np.sqrt(sum((0.5 * 10.0 ** (np.floor(np.log10(abs(x))) - 5)) ** 2 for x in t_s if x != 0)))
                e_t = float((np.abs(tt - tth_m) - f32 * np.abs(tth_m) - np.degrees(dt / lever[0])).max())
                e_e = float((np.abs(np.asarray(geom.angdiff(ee, eta_m), float)) - f32 * np.abs(eta_m)
                             - np.degrees(dt / lever[1])).max())
                atol = 1e-9 if src == "mem" else 5.01e-7 + 1e-8
                run.setmax("worst_saved_tth_eta_excess_" + src, max(e_t, e_e))
                if not (e_t <= atol and e_e <= atol):
                    V("saved:tth-eta", "grain %d: saved tth/eta_per_grain differ from the harness model of the saved grain by "
                      "%.3g / %.3g beyond float32 storage (allowed %.3g, %s)" % (g, e_t, e_e, atol, src), grain=g)
                hh = np.array([col.hr, col.kr, col.lr], float).T[mine]
                htol = np.array([5.01e-5, 5.01e-5, 5.01e-7]) if src == "file" else np.zeros(3)
                # error of the *model* g (file: rounded translation/omegacalc/UBI, see above) propagates as |ubi| row sums
                prop = np.abs(ubi_s).sum(axis=1) * (1e-9 if src == "mem" else 1.2e-7)
                exc = np.abs(hh - hr_m) - f32 * np.maximum(1.0, np.abs(hr_m)) - htol[None, :] - prop[None, :]
                if not float(exc.max()) <= 1e-9:
                    V("saved:hkl-real-model", "grain %d: saved hr,kr,lr differ from UBI.g of the saved grain by %.3g beyond storage precision (%s)"
                      % (g, float(exc.max()), src), grain=g)
                frac = np.abs(hr_m - np.rint(hr_m))
                sure = (frac < 0.49).all(axis=1)
                hi = np.array([col.h, col.k, col.l], float).T[mine]
                if not np.array_equal(hi[sure], np.rint(hr_m)[sure]):
                    V("saved:hkl-int", "grain %d: saved h,k,l are not the rounded hr,kr,lr of the saved grain (%s)" % (g, src), grain=g)
                if src == "mem":
                    # drlv2 is the score of the assignment: squared hkl error under the grain the peak was given to,
                    # either at assignment time (start grain) or for the refined grain
                    dr = np.asarray(col.drlv2, float)[mine]
                    e_ref = objective_terms(p, sc_s, fc_s, om_s, ubi_s, t_s, False)
                    okd = np.abs(dr - e_ref) <= 1e-9 + 1e-6 * dr
                    for im in range(len(auts)):
                        okd |= np.abs(dr - e_all[g, im, mine]) <= 1e-9 + 1e-6 * dr
                    run.count("drlv2_values_checked", nmine)
                    if not okd.all():
                        k = int(np.nonzero(mine)[0][np.nonzero(~okd)[0][0]])
                        V("saved:drlv2", "grain %d peak %d: drlv2 %.6g is neither the assignment score %.6g nor the refined score"
                          % (g, k, float(np.asarray(col.drlv2)[k]), float(e_all[g, 0, k])), grain=g, peak=k)
                run.count("saved_column_sets_checked_" + src)
            # nuniq = number of distinct (h,k,l,sign eta) among the grain's peaks; recount from the file
            eta_f = np.asarray(new.eta_per_grain, float)[mine]
            if hasattr(got, "nuniq") and (np.minimum(np.abs(eta_f), 180 - np.abs(eta_f)) > 1e-3).all():
                want_nu = len(set(map(tuple, np.column_stack([np.rint(hs[mine]).astype(int), np.sign(eta_f).astype(int)]).tolist())))
                run.count("nuniq_checked")
                if int(float(got.nuniq)) != want_nu:
                    V("saved:nuniq", "grain %d: saved nuniq %d, recount of distinct (h,k,l,sign eta) gives %d"
                      % (g, int(float(got.nuniq)), want_nu), grain=g)
            elif not hasattr(got, "nuniq"):
                V("saved:nuniq", "grain %d: no nuniq saved" % g, grain=g)
            if mem is not None:
                gm = mem.grains[(g, flt)]
                if np.abs(got.ubi - gm.ubi).max() > 1e-8 * np.abs(gm.ubi).max():
                    V("saved:ubi-precision", "saved UBI differs from in-memory refined value beyond 9 digits", grain=g)
                if np.abs(np.asarray(got.translation) - gm.translation).max() > 1e-5 * max(1.0, np.abs(gm.translation).max()):
                    V("saved:translation-precision", "saved translation differs from in-memory value beyond 6 digits",
                      grain=g)
            # ---- recovery of the truth
            if not okl:
                run.count("grains_in_ambiguous_scenarios")
                continue
            # makeuniq may re-describe the lattice by a proper symmetry operation M (rows of UBI are recombined):
            # then got.ubi = M.ubi_t and hkl -> M.hkl, with M an integer, det +1 automorphism of the unstrained metric
            Mf = np.asarray(got.ubi, float) @ UB_t
            M = np.rint(Mf)
            if c["uniq"]:
                run.count("uniq_grains_checked")
                if (np.abs(Mf - M).max() > 0.02 or abs(np.linalg.det(M) - 1) > 1e-9
                        or np.abs(M @ G0 @ M.T - G0).max() > 1e-9 * np.abs(G0).max()):
                    V("recovered:uniq-operator", "grain %d: refined UBI = M.true UBI with M = %r, not a proper symmetry operation of the cell %r"
                      % (g, Mf.round(4).tolist(), cell), grain=g)
                    continue
                if not np.array_equal(M, np.eye(3)):
                    run.count("uniq_grains_reoriented")
            else:
                M = np.eye(3)
            ubi_x = M @ ubi_t
            hkl_x = (hkl[mine] @ M.T).astype(int)
            eu = np.abs(got.ubi - ubi_x).max() / np.abs(ubi_x).max()
            et = np.abs(np.asarray(got.translation) - t_t).max()
            scr, fcr, omr = scr_[mine], fcr_[mine], omr_[mine]
            f_ref = 1e6 * float(objective_terms(p, scr, fcr, omr, got.ubi, got.translation, omfloat).mean())
            f_tru = 1e6 * float(objective_terms(p, scr, fcr, omr, ubi_t, t_t, omfloat).mean())
            run.setmax("worst_ubi_rel_err", float(eu))
            run.setmax("worst_translation_err_um", float(et))
            run.setmax("worst_objective_excess", float(f_ref - f_tru))
            run.count("grains_judged")
            cls = ["ng%d" % ng, "omfloat" if omfloat else "omfixed", "noncubic" if kind != "cubic" else "cubic"]
            cls += [k_ for k_ in ("lattice", "uniq", "plainubi", "partrans", "xcyc", "sort") if c[k_]]
            if njunk:
                cls.append("junk")
            if ng >= 3 and omfloat:
                cls.append("omfloat_ng3plus")
            if ng == 1 and omfloat:
                cls.append("omfloat_ng1")
            if use_script:
                cls.append("script")
            for k_ in cls:
                run.count("judged_" + k_)
            run.extra.setdefault("_terr", []).append(float(et))
            run.extra.setdefault("_uerr", []).append(float(eu))
            run.extra.setdefault("_oexc", []).append(float(f_ref - f_tru))
            if not np.array_equal(np.rint(hs[mine]).astype(int), hkl_x):
                k = int(np.nonzero(mine)[0][np.nonzero((np.rint(hs[mine]).astype(int) != hkl_x).any(axis=1))[0][0]])
                V("saved:hkl", "peak %d saved hkl %r != simulated %r%s" % (k, hs[k].tolist(), hkl[k].tolist(),
                                                                            " (after makeuniq operator)" if c["uniq"] else ""), peak=k)
            if not f_ref <= f_tru + 2.0:
                V("recovered:objective", "grain %d: refined state has gof %.3g, truth %.3g (1e6.<drlv2>), excess > 2; "
                  "ubi rel err %.3g, translation err %.3g um" % (g, f_ref, f_tru, eu, et), grain=g)
            # saved real-valued hkl of this grain's peaks must be (nearly) the integers they were simulated from
            dh = float(np.abs(hrs[mine] - hkl_x).max())
            run.setmax("worst_saved_hkl_real_err", dh)
            if not dh <= 5e-3:
                V("saved:hkl-real", "grain %d: saved hr,kr,lr differ from the simulated integers by %.3g" % (g, dh), grain=g)
            if not eu <= 1e-4:
                V("recovered:ubi", "grain %d UBI relative error %.3g > 1e-4" % (g, eu), grain=g)
            if not et <= 25.0:
                V("recovered:translation", "grain %d translation error %.3g um > 25 (got %r want %r)"
                  % (g, et, list(got.translation), t_t.tolist()), grain=g)
            if c["lattice"]:
                # the constrained fit must return a cell of the requested symmetry: print precision of the
                # saved UBI (9 digits, 5e-10 rel per element) amplifies to < 1e-8 on lengths, < 1e-6 deg on angles
                cg = xtal.cell_from_metric(np.asarray(got.ubi, float) @ np.asarray(got.ubi, float).T)
                dev = 0.0
                if kind in ("cubic", "tetragonal", "hexagonal"):
                    dev = max(dev, abs(cg[0] - cg[1]) / cg[0])
                if kind == "cubic":
                    dev = max(dev, abs(cg[0] - cg[2]) / cg[0])
                want_ang = {"hexagonal": (90, 90, 120), "monoclinic": (90, None, 90)}.get(kind, (90, 90, 90))
                adev = max(abs(cg[3 + i] - w) for i, w in enumerate(want_ang) if w is not None)
                run.count("lattice_cells_checked")
                if dev > 1e-7 or adev > 1e-5:
                    V("recovered:lattice-symmetry", "grain %d: refined cell %r does not have the requested %s symmetry"
                      % (g, cg.tolist(), symname), grain=g)
    finally:
        shutil.rmtree(tmp, ignore_errors=True)


def check(run, replay=None):
    from ImageD11 import refinegrains, columnfile, parameters, grain
    mods = (refinegrains, columnfile, parameters, grain)
    os.makedirs(os.path.join(WORK, "tmp"), exist_ok=True)
    if replay is not None:
        cs = replay["case"]
        one_scenario(run, replay["seed"], cs["index"], mods, cs.get("use_script", False))
        run.nontrivial.update(["replay", "replay2"])
        return
    n = 64 if run.tier == "quick" else 800
    for i in range(n):
        one_scenario(run, run.seed, i, mods)
    for i in range(8 if run.tier == "quick" else 60):
        one_scenario(run, run.seed, 1000 + i, mods, use_script=True)
    # run-level statistics: the bulk of the grains must be recovered much better than the per-grain caps
    te = np.array(run.extra.pop("_terr", [0.0]))
    ue = np.array(run.extra.pop("_uerr", [0.0]))
    oe = np.array(run.extra.pop("_oexc", [0.0]))
    pct = lambda a: {"median": float(np.median(a)), "p90": float(np.percentile(a, 90)), "max": float(a.max())}
    run.extra["translation_err_um"] = pct(te)
    run.extra["ubi_rel_err"] = pct(ue)
    run.extra["objective_excess"] = pct(oe)
    run.counters["stat_translation_err_um_median"], run.counters["stat_translation_err_um_p90"] = pct(te)["median"], pct(te)["p90"]
    run.counters["stat_ubi_rel_err_median"], run.counters["stat_ubi_rel_err_p90"] = pct(ue)["median"], pct(ue)["p90"]
    # Limits = about 3x the largest run-level value measured on the unchanged tree with this workload (thorough seed 0:
    # 2232 grains, median 0.127um / p90 0.278um, UBI 7.1e-8 / 2.3e-7; quick seeds 0-6, 145-185 grains each:
    # median 0.126-0.141um, p90 0.25-0.32um, UBI median 6.4e-8-7.9e-8, p90 1.8e-7-3.6e-7).  A run judges >= 40 grains
    # (required below); the spread of the quick-tier values shows the sampling noise at that size.
    if len(te) >= 40 and (np.median(te) > 0.4 or np.percentile(te, 90) > 1.0):
        run.violation("recovered:translation-statistics",
                      "translation errors over %d grains: median %.3g um, 90th percentile %.3g um (limits 0.4 / 1; unchanged tree: 0.13 / 0.28)"
                      % (len(te), np.median(te), np.percentile(te, 90)), dict(stats=pct(te)))
    if len(ue) >= 40 and (np.median(ue) > 2.5e-7 or np.percentile(ue, 90) > 1.2e-6):
        run.violation("recovered:ubi-statistics",
                      "UBI relative errors over %d grains: median %.3g, 90th percentile %.3g (limits 2.5e-7 / 1.2e-6; unchanged tree: 7e-8 / 2.3e-7)"
                      % (len(ue), np.median(ue), np.percentile(ue, 90)), dict(stats=pct(ue)))
    run.require_counter("grains_judged", 40)
    # the exemption for scenarios in which some ambiguous peak went to another grain must stay an exception
    if run.counters.get("scenarios_with_wrong_labels", 0) > 0.25 * run.counters.get("refinement_flows", 0):
        run.inconc("more than a quarter of the scenarios (%d of %d) were exempt from the recovery verdict (ambiguous starts)"
                   % (run.counters.get("scenarios_with_wrong_labels", 0), run.counters.get("refinement_flows", 0)))
    run.require_counter("peaks_checked", 1000)
    run.require_counter("makemap_script_runs", 1)
    for k_ in ("judged_ng1", "judged_ng2", "judged_ng3", "judged_ng5", "judged_omfloat_ng1", "judged_omfloat_ng3plus",
               "judged_omfixed", "judged_noncubic", "judged_lattice", "judged_uniq", "judged_plainubi", "judged_partrans",
               "judged_xcyc", "judged_sort", "judged_junk", "judged_script", "junk_peaks_checked", "lattice_cells_checked",
               "saved_column_sets_checked_mem", "saved_column_sets_checked_file", "nuniq_checked", "drlv2_values_checked",
               "newflt_files_checked", "sorted_saves_checked"):
        run.require_counter(k_, 1)
