"""C02 - Bragg/Ewald laws and invertibility of the diffraction geometry.

Reference-free laws evaluated on the outputs of the real code (python
transform.*, gv_general.*, C compute_geometry / compute_gv via Ctransform and
columnfile), plus the harness' own analytic reachability test for the inverse.
"""
import numpy as np
from .. import geom
from ..common import rng
from .c01 import gen_pars, SW

TECHNIQUE = 'runtime law monitor: Bragg/Ewald/rigid-rotation laws and inverse-forward identity checked on outputs of the real code, with an analytic reachability oracle'
LEVEL_TEXT = 'Exploration: reference-free physical laws are evaluated on every output of compute_g_vectors / compute_k_vectors / C compute_gv+compute_geometry / columnfile columns, the inverse (uncompute_g_vectors, g_to_k) is run on reachable, unreachable and boundary g-vectors and composed with the forward map, and detector projection is round-tripped through Python and C. Counts of reachable/unreachable/margin cases are in the evidence.'
LEVEL_NOTE = 'Trusts the harness reachability closed form (1e-9 margin accepted either way) and conditioning-derived tolerances.'

RULE = ("a case = one (wavelength, wedge, chi, omegasign, detector class) configuration with a "
        "batch of g-vectors / peaks: directions uniform on the sphere, |g|*lambda/2 in "
        "{1e-6..0.999, 1, 1.001, 3}, dense sampling of the blind-cone boundary, axis-parallel g; "
        "non-trivial = batch contains both reachable and unreachable g, or wedge/chi non-zero; "
        "distinct = distinct (config class, special-set) descriptor")

F = geom.F


def rel(a, b):
    return np.abs(np.asarray(a, F) - np.asarray(b, F))


def reach(g, lam, wedge, chi):
    """harness analytic reachability: x = rhs/A, reachable iff |x|<=1"""
    WC = np.asarray(geom.Wmat(wedge) @ geom.Cmat(chi), float)
    a = WC[0]
    g = np.asarray(g, float)
    g2 = (g * g).sum(axis=0)
    rhs = -g2 * lam / 2.0 - a[2] * g[2]
    P = a[0] * g[0] + a[1] * g[1]
    Q = -a[0] * g[1] + a[1] * g[0]
    A = np.hypot(P, Q)
    with np.errstate(divide="ignore", invalid="ignore"):
        x = rhs / A
    return x, A, np.sqrt(g2)


def gen_g(r, lam, wedge, chi, n):
    v = r.normal(size=(3, n))
    v /= np.sqrt((v * v).sum(axis=0))
    s = r.choice([1e-6, 1e-3, 0.01, 0.05, 0.1, 0.2, 0.3, 0.5, 0.7, 0.9, 0.999, 1.0, 1.001, 3.0],
                 n, p=[.02, .03, .05, .1, .15, .15, .15, .1, .07, .05, .04, .03, .03, .03])
    g = v * (2 * s / lam)
    # blind-cone boundary: choose direction so that x is close to +-1
    # for wedge=chi=0: |x| = |g| lam / (2 sin(polar)) ; sin(polar) = |g| lam/2 * (1+-d)
    m = n // 4
    for i in range(m):
        ss = float(r.choice([0.05, 0.2, 0.5, 0.8]))
        dlt = float(r.choice([0, 1e-12, -1e-12, 1e-10, -1e-10, 1e-8, -1e-8, 1e-6, -1e-6, 1e-4,
                              -1e-4, 1e-2, -1e-2]))
        sp = min(1.0, ss * (1 + dlt))
        az = r.uniform(0, 2 * np.pi)
        sign = r.choice([-1, 1])
        cp = np.sqrt(max(0.0, 1 - sp * sp)) * sign
        g[:, i] = (2 * ss / lam) * np.array([sp * np.cos(az), sp * np.sin(az), cp])
    # axis parallel
    if n > 8:
        g[:, m] = [0, 0, 0.3 * 2 / lam]
        g[:, m + 1] = [0, 0, -0.1 * 2 / lam]
        g[:, m + 2] = [1e-20, 0, 0.2 / lam]
    return g


def laws_forward(run, transform, p, desc, r, n):
    """laws (1)-(4) on compute_g_vectors / compute_k_vectors / C geometry"""
    lam = p["wavelength"]
    tth = r.uniform(0.0, 179.0, n)
    tth[: n // 3] = r.uniform(0.0, 30.0, n // 3)
    eta = r.uniform(-180, 180, n)
    om = r.uniform(-720, 720, n)
    k = transform.compute_k_vectors(tth, eta, lam)
    g = transform.compute_g_vectors(tth, eta, om, lam, wedge=p["wedge"], chi=p["chi"])
    th = np.radians(np.asarray(tth, F)) / 2
    want = 2 * np.sin(th) / F(lam)
    modk = np.sqrt(np.asarray((k * k).sum(axis=0), F))
    modg = np.sqrt(np.asarray((g * g).sum(axis=0), F))
    tol = 1e-12 / lam
    run.count("law_evals", 6 * n)
    if (rel(modk, want) > tol).any():
        run.violation("bragg:|k|", "|k| != 2 sin(theta)/lambda", dict(desc, pars=p))
    if (rel(modg, want) > tol).any():
        run.violation("bragg:|g|", "|g| != 2 sin(theta)/lambda (python compute_g_vectors)",
                      dict(desc, pars=p))
    # Ewald sphere
    kin = np.array([1.0 / lam, 0, 0])[:, None]
    if (rel(np.sqrt(((k + kin) ** 2).sum(axis=0)), 1 / lam) > tol).any():
        run.violation("ewald:|k+kin|", "k + k_in not on the Ewald sphere", dict(desc, pars=p))
    # (2) invariance of |g| under omega, wedge, chi, sign
    for (w2, c2, sg) in ((0.0, 0.0, 1), (p["wedge"], 0.0, -1), (0.0, p["chi"], 1),
                         (-p["wedge"], -p["chi"], -1), (33.0, -21.0, 1)):
        g2 = transform.compute_g_vectors(tth, eta, sg * om + 17.0, lam, wedge=w2, chi=c2)
        if (rel(np.sqrt((g2 * g2).sum(axis=0)), modg) > tol).any():
            run.violation("invariance:|g|", "|g| depends on omega/wedge/chi/sign",
                          dict(desc, pars=p, wedge2=w2, chi2=c2))
    # (3) rigid rotation: g(om+d) = Rz(-d) g(om)   (any wedge, chi)
    dl = float(r.uniform(-200, 200))
    gd = transform.compute_g_vectors(tth, eta, om + dl, lam, wedge=p["wedge"], chi=p["chi"])
    R = np.asarray(geom.Rz(np.radians(F(-dl))), float)
    if (rel(gd, R @ g) > tol).any():
        run.violation("rotation:rigid", "change of omega is not a rigid rotation about z",
                      dict(desc, pars=p, delta=dl))
    # full matrix form with harness matrices: g = Om^T C^T W^T k
    WC = geom.Wmat(p["wedge"]) @ geom.Cmat(p["chi"])
    v = np.asarray(k, F).T @ WC
    Om = geom.omega_mats(om)
    gref = np.einsum("nji,nj->ni", Om, v).T
    if (rel(g, gref) > tol).any():
        run.violation("rotation:stack", "g != Om^T.C^T.W^T.k with harness matrices",
                      dict(desc, pars=p))


def laws_c(run, mods, p, desc, r, n):
    """Bragg/Ewald on the C fast path + columnfile columns"""
    transform, columnfile, parameters = mods
    lam = p["wavelength"]
    sc = r.uniform(0, 2048, n)
    fc = r.uniform(0, 2048, n)
    om = r.uniform(-360, 360, n)
    if desc["index"] % 2:
        # peak tables where the same omega value turns up again and again (scanning / multi-sweep data), in random order
        om = r.choice(r.uniform(-360, 360, 5), n)
    cf = columnfile.colfile_from_dict({"sc": sc, "fc": fc, "omega": om})
    cf.parameters = parameters.parameters(**p)
    for fast in (True, False):
        cf.updateGeometry(fast=fast)
        th = np.radians(np.asarray(cf.tth, F)) / 2
        want = 2 * np.sin(th) / F(lam)
        modg = np.sqrt(np.asarray(cf.gx, F) ** 2 + np.asarray(cf.gy, F) ** 2 + np.asarray(cf.gz, F) ** 2)
        run.count("law_evals", 2 * n)
        # tth from atan2 has abs error ~1e-14 deg; ds = k-length: 1e-12/lam
        if (rel(cf.ds, want) > 1e-12 / lam).any() or (rel(modg, want) > 1e-12 / lam).any():
            run.violation("bragg:columnfile(fast=%s)" % fast,
                          "ds or |g| column != 2 sin(tth/2)/lambda", dict(desc, pars=p))
    # |g| independent of omega / omegasign / wedge / chi for the same lab positions, t=0
    ct = transform.Ctransform(p)
    xyz = ct.sf2xyz(sc, fc)
    g0 = ct.xyz2gv(xyz, om)
    m0 = np.sqrt((g0 * g0).sum(axis=1))
    p2 = dict(p, omegasign=-p["omegasign"], wedge=p["wedge"] + 7.0, chi=p["chi"] - 11.0)
    ct2 = transform.Ctransform(p2)
    g1 = ct2.xyz2gv(xyz, om + 31.0)
    m1 = np.sqrt((g1 * g1).sum(axis=1))
    run.count("law_evals", n)
    if (rel(m0, m1) > 1e-12 / lam).any():
        run.violation("invariance:|g|:C", "C compute_gv: |g| depends on omega/sign/wedge/chi",
                      dict(desc, pars=p))
    dl = float(r.uniform(-180, 180))
    g2 = ct.xyz2gv(xyz, om + dl)
    R = np.asarray(geom.Rz(np.radians(F(-dl * p["omegasign"]))), float)
    if (rel(g2.T, R @ g0.T) > 1e-12 / lam).any():
        run.violation("rotation:rigid:C", "C compute_gv: omega change is not a rigid rotation",
                      dict(desc, pars=p, delta=dl))


def inverse_law(run, mods, p, desc, r, n):
    transform, gv_general = mods
    lam, wedge, chi = p["wavelength"], p["wedge"], p["chi"]
    g = gen_g(r, lam, wedge, chi, n)
    x, A, modg = reach(g, lam, wedge, chi)
    margin = 1e-9
    with np.errstate(invalid="ignore"):
        can = (np.abs(x) < 1 - margin) & (A > 1e-12 * np.maximum(modg, 1e-300)) & (modg * lam / 2 < 1 - margin)
        cannot = (np.abs(x) > 1 + margin) | ((A == 0) & (modg > 0)) | (modg * lam / 2 > 1 + margin)
    cannot &= ~can
    with np.errstate(invalid="ignore"):
        tth, (eta1, eta2), (om1, om2) = transform.uncompute_g_vectors(g, lam, wedge=wedge, chi=chi)
    run.count("inverse_reachable", int(can.sum()))
    run.count("inverse_unreachable", int(cannot.sum()))
    run.count("inverse_margin_skipped", int((~can & ~cannot).sum()))
    # unreachable: invalid marker
    marker = ((tth == 0) | np.isnan(tth)) & (eta1 == 0) & (eta2 == 0) & (om1 == 0) & (om2 == 0)
    bad = cannot & ~marker
    if bad.any():
        i = int(np.nonzero(bad)[0][0])
        run.violation("inverse:unreachable-not-flagged",
                      "g that cannot diffract was given angles: g=%r tth=%r eta=%r,%r omega=%r,%r x=%r"
                      % (g[:, i].tolist(), tth[i], eta1[i], eta2[i], om1[i], om2[i], x[i]),
                      dict(desc, pars=p, g=g[:, i].tolist()))
    # reachable: both solutions map forward onto g
    if can.any():
        gi = g[:, can]
        s = modg[can] * lam / 2
        xc = x[can]
        tol = (1e-9 + 1e-14 / np.sqrt(1 - xc * xc) + 1e-14 / np.sqrt(1 - s * s)) * modg[can]
        for lab, eta, om in (("sol1", eta1, om1), ("sol2", eta2, om2)):
            gf = transform.compute_g_vectors(tth[can], eta[can], om[can], lam, wedge=wedge, chi=chi)
            err = np.sqrt(((gf - gi) ** 2).sum(axis=0))
            b = ~(err <= tol)
            run.count("inverse_roundtrips", int(can.sum()))
            if b.any():
                j = int(np.nonzero(b)[0][0])
                run.violation("inverse:roundtrip:" + lab,
                              "uncompute->compute does not return g: g=%r got=%r err=%.3g tol=%.3g x=%r"
                              % (gi[:, j].tolist(), gf[:, j].tolist(), err[j], tol[j], xc[j]),
                              dict(desc, pars=p, g=gi[:, j].tolist()))
        # the two solutions must be different rotations unless tangent
        # direct g_to_k / k_to_g: k must satisfy Laue: |k + kin| = 1/lam
        post = None if wedge == chi == 0 else gv_general.wedgechi(wedge=wedge, chi=chi)
        o1, o2, valid = gv_general.g_to_k(gi, lam, axis=[0, 0, -1], pre=None, post=post)
        if not valid.all():
            run.violation("inverse:valid-mask", "g_to_k flags a reachable g invalid",
                          dict(desc, pars=p, g=gi[:, int(np.nonzero(~valid)[0][0])].tolist()))
        pre = None if post is None else gv_general.chiwedge(wedge=wedge, chi=chi).T
        for o in (o1, o2):
            k = gv_general.k_to_g(gi, o, axis=[0, 0, 1], pre=pre, post=None)
            kin = np.array([1 / lam, 0, 0])[:, None]
            e = np.abs(np.sqrt(((k + kin) ** 2).sum(axis=0)) - 1 / lam)
            tolk = (1e-9 + 1e-14 / np.sqrt(1 - xc * xc)) * np.maximum(modg[can], 1e-3 / lam)
            if (~(e <= tolk)).any():
                j = int(np.nonzero(~(e <= tolk))[0][0])
                run.violation("inverse:laue", "k from g_to_k/k_to_g is not on the Ewald sphere "
                              "g=%r err=%.3g" % (gi[:, j].tolist(), e[j]),
                              dict(desc, pars=p, g=gi[:, j].tolist()))
    return bool(can.any() and cannot.any())


def detector_roundtrip(run, transform, p, desc, r, n):
    tth = r.uniform(0.05, 55, n)
    eta = r.uniform(-180, 180, n)
    om = r.uniform(-360, 360, n)
    # harness: does the ray hit the front of the detector plane?
    R = np.asarray(geom.det_tilt(p), float)
    normal = np.cross(R[:, 1], R[:, 2])     # +-x for small tilts
    rt, re = np.radians(tth), np.radians(eta)
    ray = np.array([np.cos(rt), -np.sin(rt) * np.sin(re), np.sin(rt) * np.cos(re)])
    go = np.asarray(geom.grain_origins(dict(p, omegasign=1.0), om, (p["t_x"], p["t_y"], p["t_z"])), float).T
    nd = normal @ ray
    dist = (normal @ (np.array([[p["distance"]], [0], [0]]) - go)) / nd
    ok = (dist > 0) & (np.abs(nd) > 0.2)
    pp = {k: v for k, v in p.items() if k not in ("omegasign", "wavelength")}
    fc, sc = transform.compute_xyz_from_tth_eta(tth, eta, om, **pp)
    tth2, eta2 = transform.compute_tth_eta(np.array((sc, fc)), omega=om, **pp)
    dperp = dist * np.sin(rt)
    # the projection passes through pixel coordinates: position errors of ~1e-13 relative to the geometry scale
    # (distance + detector extent, conditioning of the plane intersection ~1e3) are the floating point limit;
    # observed worst on the unchanged tree 2.3e-7 um at scale 1.4e6 um (DESIGN.md Corrections)
    scale = abs(p["distance"]) + 2048 * (abs(p["y_size"]) + abs(p["z_size"])) + abs(p["t_x"]) + abs(p["t_y"]) + abs(p["t_z"])
    pos_tol = 1e-12 * scale
    tolt = 1e-9 + np.degrees(pos_tol / np.abs(dist))
    tole = 1e-9 + np.degrees(pos_tol / np.maximum(np.abs(dperp), 1e-9))
    run.count("detector_roundtrips", int(ok.sum()))
    b = ok & ~((np.abs(tth2 - tth) <= tolt) & (np.abs(np.asarray(geom.angdiff(eta2, eta), float)) <= tole))
    if b.any():
        j = int(np.nonzero(b)[0][0])
        run.violation("detector:roundtrip:python",
                      "compute_xyz_from_tth_eta -> compute_tth_eta: tth %r->%r eta %r->%r"
                      % (tth[j], tth2[j], eta[j], eta2[j]), dict(desc, pars=p, peak=j))
    # C route back: same pixels through Ctransform (omega/omegasign so that signed omega = om)
    ct = transform.Ctransform(p)
    xyz = ct.sf2xyz(sc, fc)
    geo = ct.xyz2geometry(xyz, om / p["omegasign"], p["t_x"], p["t_y"], p["t_z"])
    b = ok & ~((np.abs(geo[:, 0] - tth) <= tolt) &
               (np.abs(np.asarray(geom.angdiff(geo[:, 1], eta), float)) <= tole))
    if b.any():
        j = int(np.nonzero(b)[0][0])
        run.violation("detector:roundtrip:C",
                      "compute_xyz_from_tth_eta -> C compute_geometry: tth %r->%r eta %r->%r"
                      % (tth[j], geo[j, 0], eta[j], geo[j, 1]), dict(desc, pars=p, peak=j))


def one_case(run, seed, idx, flip, bits, mods):
    transform, gv_general, columnfile, parameters = mods
    r = rng(seed, "C02", idx)
    p = gen_pars(r, flip, bits)
    # wedge / chi from the special set now and then
    if idx % 3 == 1:
        p["wedge"] = float(r.choice([0, 1e-3, -1e-3, 5, -5, 30, -30])) if p["wedge"] else 0.0
        p["chi"] = float(r.choice([0, 1e-3, -1e-3, 5, -5, 30, -30])) if p["chi"] else 0.0
    desc = dict(index=idx, flip=flip, bits=bits)
    n = 500 if run.tier == "quick" else 1500
    laws_forward(run, transform, p, desc, r, n)
    from ImageD11 import cImageD11
    cImageD11.cimaged11_omp_set_num_threads([1, 2, 4, 8, 16][idx % 5])
    laws_c(run, (transform, columnfile, parameters), p, desc, r, 200 if idx % 4 else 4000)
    cImageD11.cimaged11_omp_set_num_threads(4)
    both = inverse_law(run, (transform, gv_general), p, desc, r, n)
    detector_roundtrip(run, transform, p, desc, r, 300)
    run.case((flip, bits, idx % 3), nontrivial=both or p["wedge"] != 0 or p["chi"] != 0,
             sample=dict(desc, wavelength=p["wavelength"], wedge=p["wedge"], chi=p["chi"],
                         omegasign=p["omegasign"]))


def check(run, replay=None):
    from ImageD11 import transform, gv_general, columnfile, parameters
    mods = (transform, gv_general, columnfile, parameters)
    run.assumptions += [
        "reachability decided by the harness' closed form P cos w + Q sin w = rhs with a 1e-9 margin "
        "inside which either answer is accepted",
        "round-trip tolerance 1e-9 relative + 1e-14/sqrt(1-x^2) (tangent conditioning) + 1e-14/sqrt(1-s^2)",
        "detector round trip restricted to rays that hit the front of the detector plane (|n.ray|>0.2)",
    ]
    if replay is not None:
        cs = replay["case"]
        one_case(run, replay["seed"], cs["index"], cs["flip"], cs["bits"], mods)
        run.nontrivial.update(["replay", "replay2"])
        return
    r = rng(run.seed, "C02", "plan")
    ncase = 400 if run.tier == "quick" else 4000
    nb = len(SW)
    for idx in range(ncase):
        flip = idx % 8
        if idx < 16:
            bits = 0 if idx < 8 else (1 << nb) - 1
        else:
            bits = int(r.integers(1 << nb))
        one_case(run, run.seed, idx, flip, bits, mods)
    run.require_counter("inverse_roundtrips", 1000)
    run.require_counter("inverse_unreachable", 100)
    run.require_counter("detector_roundtrips", 1000)
