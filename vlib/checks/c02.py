"""C02 - Bragg/Ewald laws and invertibility of the diffraction geometry.

Reference-free laws evaluated on the outputs of the real code (python
transform.*, gv_general.*, C compute_geometry / compute_gv via Ctransform and
columnfile), plus the harness' own analytic reachability test for the inverse.
"""
import numpy as np
from .. import geom
from ..common import rng
from .c01 import gen_pars, SW

TECHNIQUE = 'runtime law monitor: Bragg/Ewald/rigid-rotation laws and inverse-forward identity checked on outputs of the real code, with an analytic reachability oracle'
LEVEL_TEXT = ('Exploration: reference-free physical laws are evaluated on every output of compute_g_vectors / compute_k_vectors / '
              'C compute_gv+compute_geometry (g columns included) / columnfile columns / gv_general.rotation_axis and k_to_g with a '
              'general axis and pre/post matrices; the inverse (uncompute_g_vectors, uncompute_one_g_vector, g_to_k) is run on '
              'reachable, unreachable and boundary g-vectors (the blind-cone boundary is solved for the actual wedge/chi), composed '
              'with the forward map, and the two omega solutions are compared with the closed-form separation 2.acos|x|; detector '
              'projection is round-tripped through Python and C. Counts of reachable/unreachable/margin/boundary cases are in the evidence.')
LEVEL_NOTE = ('Trusts the harness reachability closed form (1e-9 margin accepted either way) and conditioning-derived tolerances. '
              'g_to_k is only driven the way transform.uncompute_g_vectors drives it (axis -z, post=wedgechi): for a general axis its '
              'pre/post convention is private to the code and not part of the property.')

RULE = ("a case = one (wavelength, wedge, chi, omegasign, detector class) configuration with a "
        "batch of g-vectors / peaks: directions uniform on the sphere, |g|*lambda/2 in "
        "{1e-6..0.999, 1, 1.001, 3}, dense sampling of the blind-cone boundary (solved for the case's wedge/chi), "
        "axis-parallel g, batches of 0 and 1 g-vector, plus a random rotation axis with random pre/post rotations; "
        "non-trivial = batch contains both reachable and unreachable g, or wedge/chi non-zero; "
        "distinct = distinct (config class, special-set) descriptor")

F = geom.F


def rel(a, b):
    return np.abs(np.asarray(a, F) - np.asarray(b, F))


def reach(g, lam, wedge, chi):
    """harness analytic reachability: x = rhs/A, reachable iff |x|<=1"""
    WC = np.asarray(geom.Wmat(wedge) @ geom.Cmat(chi), float)
    a = WC[0]
    g = np.asarray(g, float)
    g2 = (g * g).sum(axis=0)
    rhs = -g2 * lam / 2.0 - a[2] * g[2]
    P = a[0] * g[0] + a[1] * g[1]
    Q = -a[0] * g[1] + a[1] * g[0]
    A = np.hypot(P, Q)
    with np.errstate(divide="ignore", invalid="ignore"):
        x = rhs / A
    return x, A, np.sqrt(g2)


def gen_g(r, lam, wedge, chi, n):
    v = r.normal(size=(3, n))
    v /= np.sqrt((v * v).sum(axis=0))
    s = r.choice([1e-6, 1e-3, 0.01, 0.05, 0.1, 0.2, 0.3, 0.5, 0.7, 0.9, 0.999, 1.0, 1.001, 3.0],
                 n, p=[.02, .03, .05, .1, .15, .15, .15, .1, .07, .05, .04, .03, .03, .03])
    g = v * (2 * s / lam)
    # blind-cone boundary: choose the polar angle so that x = rhs/A is close to +-1 for THIS wedge/chi.
    # With g = |g| (sin(p) cos(az), sin(p) sin(az), cos(p)), a = first row of W.C, h = hypot(a0, a1), ss = |g| lam / 2:
    #   x = (-ss - a2 cos(p)) / (h sin(p))   (reach(): P^2 + Q^2 = h^2 (gx^2 + gy^2))
    # so x = X  <=>  a2 cos(p) + X h sin(p) = -ss  <=>  rho cos(p - psi) = -ss, rho = hypot(a2, X h), psi = atan2(X h, a2).
    # (wedge = chi = 0 gives sin(p) = ss/|X| with X < 0, the old special case.)
    a = np.asarray(geom.Wmat(wedge) @ geom.Cmat(chi), float)[0]
    hh = float(np.hypot(a[0], a[1]))
    m = n // 4
    for i in range(m):
        ss = float(r.choice([0.05, 0.2, 0.5, 0.8]))
        dlt = float(r.choice([0, 1e-12, -1e-12, 1e-10, -1e-10, 1e-8, -1e-8, 1e-6, -1e-6, 1e-4,
                              -1e-4, 1e-2, -1e-2]))
        sx = float(r.choice([-1, 1]))
        az = r.uniform(0, 2 * np.pi)
        br = float(r.choice([-1, 1]))
        for X in (sx * (1 + dlt), -sx * (1 + dlt)):
            rho = float(np.hypot(a[2], X * hh))
            psi = float(np.arctan2(X * hh, a[2]))
            if ss > rho:
                continue      # this |g| never touches that side of the cone for this wedge/chi
            pol = [psi + sg * float(np.arccos(-ss / rho)) for sg in (br, -br)]
            pol = [q for q in pol if np.sin(q) > 1e-6]
            if pol:
                q = pol[0]
                g[:, i] = (2 * ss / lam) * np.array([np.sin(q) * np.cos(az), np.sin(q) * np.sin(az), np.cos(q)])
                break
        # (no feasible polar angle: the random g drawn above is kept)
    # axis parallel
    if n > 8:
        g[:, m] = [0, 0, 0.3 * 2 / lam]
        g[:, m + 1] = [0, 0, -0.1 * 2 / lam]
        g[:, m + 2] = [1e-20, 0, 0.2 / lam]
    return g


def laws_forward(run, transform, p, desc, r, n):
    """laws (1)-(4) on compute_g_vectors / compute_k_vectors / C geometry"""
    lam = p["wavelength"]
    tth = r.uniform(0.0, 179.0, n)
    tth[: n // 3] = r.uniform(0.0, 30.0, n // 3)
    eta = r.uniform(-180, 180, n)
    om = r.uniform(-720, 720, n)
    k = transform.compute_k_vectors(tth, eta, lam)
    g = transform.compute_g_vectors(tth, eta, om, lam, wedge=p["wedge"], chi=p["chi"])
    th = np.radians(np.asarray(tth, F)) / 2
    want = 2 * np.sin(th) / F(lam)
    modk = np.sqrt(np.asarray((k * k).sum(axis=0), F))
    modg = np.sqrt(np.asarray((g * g).sum(axis=0), F))
    tol = 1e-12 / lam
    run.count("law_evals", 6 * n)
    if (rel(modk, want) > tol).any():
        run.violation("bragg:|k|", "|k| != 2 sin(theta)/lambda", dict(desc, pars=p))
    if (rel(modg, want) > tol).any():
        run.violation("bragg:|g|", "|g| != 2 sin(theta)/lambda (python compute_g_vectors)",
                      dict(desc, pars=p))
    # Ewald sphere
    kin = np.array([1.0 / lam, 0, 0])[:, None]
    if (rel(np.sqrt(((k + kin) ** 2).sum(axis=0)), 1 / lam) > tol).any():
        run.violation("ewald:|k+kin|", "k + k_in not on the Ewald sphere", dict(desc, pars=p))
    # (2) invariance of |g| under omega, wedge, chi, sign
    for (w2, c2, sg) in ((0.0, 0.0, 1), (p["wedge"], 0.0, -1), (0.0, p["chi"], 1),
                         (-p["wedge"], -p["chi"], -1), (33.0, -21.0, 1)):
        g2 = transform.compute_g_vectors(tth, eta, sg * om + 17.0, lam, wedge=w2, chi=c2)
        if (rel(np.sqrt((g2 * g2).sum(axis=0)), modg) > tol).any():
            run.violation("invariance:|g|", "|g| depends on omega/wedge/chi/sign",
                          dict(desc, pars=p, wedge2=w2, chi2=c2))
    # (3) rigid rotation: g(om+d) = Rz(-d) g(om)   (any wedge, chi)
    dl = float(r.uniform(-200, 200))
    gd = transform.compute_g_vectors(tth, eta, om + dl, lam, wedge=p["wedge"], chi=p["chi"])
    R = np.asarray(geom.Rz(np.radians(F(-dl))), float)
    if (rel(gd, R @ g) > tol).any():
        run.violation("rotation:rigid", "change of omega is not a rigid rotation about z",
                      dict(desc, pars=p, delta=dl))
    # full matrix form with harness matrices: g = Om^T C^T W^T k
    WC = geom.Wmat(p["wedge"]) @ geom.Cmat(p["chi"])
    v = np.asarray(k, F).T @ WC
    Om = geom.omega_mats(om)
    gref = np.einsum("nji,nj->ni", Om, v).T
    if (rel(g, gref) > tol).any():
        run.violation("rotation:stack", "g != Om^T.C^T.W^T.k with harness matrices",
                      dict(desc, pars=p))


def laws_c(run, mods, p, desc, r, n):
    """Bragg/Ewald on the C fast path + columnfile columns"""
    transform, columnfile, parameters = mods
    lam = p["wavelength"]
    sc = r.uniform(0, 2048, n)
    fc = r.uniform(0, 2048, n)
    om = r.uniform(-360, 360, n)
    if desc["index"] % 2:
        # peak tables where the same omega value turns up again and again (scanning / multi-sweep data), in random order
        om = r.choice(r.uniform(-360, 360, 5), n)
    cf = columnfile.colfile_from_dict({"sc": sc, "fc": fc, "omega": om})
    cf.parameters = parameters.parameters(**p)
    for fast in (True, False):
        cf.updateGeometry(fast=fast)
        th = np.radians(np.asarray(cf.tth, F)) / 2
        want = 2 * np.sin(th) / F(lam)
        modg = np.sqrt(np.asarray(cf.gx, F) ** 2 + np.asarray(cf.gy, F) ** 2 + np.asarray(cf.gz, F) ** 2)
        run.count("law_evals", 2 * n)
        # tth from atan2 has abs error ~1e-14 deg; ds = k-length: 1e-12/lam
        if (rel(cf.ds, want) > 1e-12 / lam).any() or (rel(modg, want) > 1e-12 / lam).any():
            run.violation("bragg:columnfile(fast=%s)" % fast,
                          "ds or |g| column != 2 sin(tth/2)/lambda", dict(desc, pars=p))
    # |g| independent of omega / omegasign / wedge / chi for the same lab positions, t=0
    ct = transform.Ctransform(p)
    xyz = ct.sf2xyz(sc, fc)
    g0 = ct.xyz2gv(xyz, om)
    m0 = np.sqrt((g0 * g0).sum(axis=1))
    p2 = dict(p, omegasign=-p["omegasign"], wedge=p["wedge"] + 7.0, chi=p["chi"] - 11.0)
    ct2 = transform.Ctransform(p2)
    g1 = ct2.xyz2gv(xyz, om + 31.0)
    m1 = np.sqrt((g1 * g1).sum(axis=1))
    run.count("law_evals", n)
    if (rel(m0, m1) > 1e-12 / lam).any():
        run.violation("invariance:|g|:C", "C compute_gv: |g| depends on omega/sign/wedge/chi",
                      dict(desc, pars=p))
    dl = float(r.uniform(-180, 180))
    g2 = ct.xyz2gv(xyz, om + dl)
    R = np.asarray(geom.Rz(np.radians(F(-dl * p["omegasign"]))), float)
    if (rel(g2.T, R @ g0.T) > 1e-12 / lam).any():
        run.violation("rotation:rigid:C", "C compute_gv: omega change is not a rigid rotation",
                      dict(desc, pars=p, delta=dl))
    # the same three laws on the g columns of C compute_geometry (out[:, 3:6]: a second copy of the loop in
    # cdiffraction.c, the one columnfile.updateGeometry(fast=True) uses), grain at the origin
    q0 = ct.xyz2geometry(xyz, om)
    q1 = ct2.xyz2geometry(xyz, om + 31.0)
    q2 = ct.xyz2geometry(xyz, om + dl)
    th = np.radians(np.asarray(q0[:, 0], F)) / 2
    run.count("law_evals", 3 * n)
    run.count("compute_geometry_g_laws", n)
    mg0 = np.sqrt((q0[:, 3:6] ** 2).sum(axis=1))
    mg1 = np.sqrt((q1[:, 3:6] ** 2).sum(axis=1))
    if (rel(mg0, 2 * np.sin(th) / F(lam)) > 1e-12 / lam).any() or (rel(mg0, q0[:, 2]) > 1e-12 / lam).any():
        run.violation("bragg:|g|:compute_geometry", "C compute_geometry: |g| != 2 sin(tth/2)/lambda or != its ds column",
                      dict(desc, pars=p))
    if (rel(mg0, mg1) > 1e-12 / lam).any():
        run.violation("invariance:|g|:compute_geometry", "C compute_geometry: |g| depends on omega/sign/wedge/chi",
                      dict(desc, pars=p))
    if (rel(q2[:, 3:6].T, R @ q0[:, 3:6].T) > 1e-12 / lam).any():
        run.violation("rotation:rigid:compute_geometry", "C compute_geometry: omega change is not a rigid rotation of g",
                      dict(desc, pars=p, delta=dl))
    if (rel(q0[:, 3:6], g0) > 1e-12 / lam).any():
        run.violation("compute_geometry-vs-compute_gv", "C compute_geometry g columns differ from C compute_gv",
                      dict(desc, pars=p))


def hrot(ax, ang_deg):
    """harness Rodrigues rotation matrices (n,3,3), right handed about unit axis ax by ang (degrees), longdouble"""
    ax = np.asarray(ax, F)
    q = np.radians(np.atleast_1d(np.asarray(ang_deg, F)))
    K = np.array([[0, -ax[2], ax[1]], [ax[2], 0, -ax[0]], [-ax[1], ax[0], 0]], F)
    I3 = np.eye(3, dtype=F)
    return I3[None] * np.cos(q)[:, None, None] + np.sin(q)[:, None, None] * K[None] + \
        (1 - np.cos(q))[:, None, None] * np.outer(ax, ax)[None]


def axis_laws(run, gv_general, p, desc, r, n):
    """gv_general.rotation_axis and k_to_g with a GENERAL axis and pre/post matrices (transform only ever uses +-z):
    a change of the rotation angle is a rigid, right-handed rotation about the axis; k_to_g is the documented product
    g = pre . rot(axis, angle) . post . k.  Oracle: the harness' own Rodrigues matrices in longdouble."""
    ax = r.normal(size=3)
    ax /= np.sqrt((ax * ax).sum())
    if desc["index"] % 4 == 0:
        ax = np.array([[0, 0, 1.0], [0, 0, -1.0], [1.0, 0, 0], [0, -1.0, 0]][(desc["index"] // 4) % 4])
    ang = r.uniform(-720, 720, n)
    ang[:4] = [0.0, 90.0, 180.0, -360.0]
    v = r.normal(size=(3, n)) * 10 ** r.uniform(-3, 3)
    scale = float(np.abs(v).max())
    tol = 1e-13 * scale      # ~20 flops on numbers <= scale, angles <= 720 deg: a few 1e-16 relative each
    o = gv_general.rotation_axis(ax)
    Rn = hrot(ax, ang)
    want = np.einsum("nij,jn->in", Rn, np.asarray(v, F))
    got = o.rotate_vectors(v, ang)
    run.count("general_axis_laws", n)
    adesc = dict(desc, axis=ax.tolist())
    if (rel(got, want) > tol).any():
        run.violation("axis:rotate_vectors", "rotation_axis.rotate_vectors(v, angles) is not the right-handed rotation "
                      "about the axis", adesc)
    back = o.rotate_vectors_inverse(got, ang)
    if (rel(back, v) > 2 * tol).any():
        run.violation("axis:rotate_vectors_inverse", "rotate_vectors_inverse does not undo rotate_vectors", adesc)
    # |v| preserved, component along the axis preserved (rigid rotation ABOUT the axis)
    if (rel(np.sqrt((got * got).sum(axis=0)), np.sqrt((np.asarray(v, F) ** 2).sum(axis=0))) > tol).any() or \
            (rel(ax @ got, np.asarray(ax, F) @ np.asarray(v, F)) > tol).any():
        run.violation("axis:rigid", "rotate_vectors changes |v| or the component along the axis", adesc)
    # fixed-angle matrix form: to_matrix / rotate_vectors(angles=None) / inverse
    a0 = float(r.uniform(-360, 360))
    o1 = gv_general.rotation_axis(ax, a0)
    M = hrot(ax, a0)[0]
    if (rel(o1.to_matrix(), M) > 1e-14).any() or (rel(o1.rotate_vectors(v), M @ np.asarray(v, F)) > tol).any() or \
            (rel(o1.rotate_vectors_inverse(v), M.T @ np.asarray(v, F)) > 2 * tol).any():
        run.violation("axis:to_matrix", "rotation_axis(axis, angle).to_matrix / rotate_vectors() is not the rotation "
                      "about the axis by the angle", dict(adesc, angle=a0))
    # matrix -> axis/angle -> matrix (angle kept away from 0 and 180 where acos is ill conditioned: error eps/sin(angle))
    a1 = float(r.uniform(1.0, 179.0))
    M1 = np.asarray(hrot(ax, a1)[0], float)
    o2 = gv_general.axis_from_matrix(M1)
    if abs(o2.angle - a1) > 1e-9 or (rel(o2.direction, ax) > 1e-10).any() or (rel(o2.matrix, M1) > 1e-12).any():
        run.violation("axis:axis_from_matrix", "axis_from_matrix(R(axis, %r)) gives angle %r direction %r"
                      % (a1, o2.angle, np.asarray(o2.direction).tolist()), dict(adesc, angle=a1))
    # k_to_g with pre and post: documented product, and a change of angle is a rigid rotation about pre.axis
    def rrot():
        a = r.normal(size=3)
        return np.asarray(hrot(a / np.sqrt((a * a).sum()), r.uniform(-180, 180))[0], float)
    combos = [(None, None), (rrot(), None), (None, rrot()), (rrot(), rrot())]
    pre, post = combos[desc["index"] % 4]
    gk = gv_general.k_to_g(v, ang, axis=ax, pre=pre, post=post)
    Pm = np.eye(3, dtype=F) if pre is None else np.asarray(pre, F)
    Qm = np.eye(3, dtype=F) if post is None else np.asarray(post, F)
    wantg = np.einsum("ij,njk,kn->in", Pm, Rn, Qm @ np.asarray(v, F))
    run.count("k_to_g_general:" + ("pre" if pre is not None else "") + ("post" if post is not None else "") +
              ("none" if pre is None and post is None else ""), n)
    if (rel(gk, wantg) > 3 * tol).any():
        run.violation("axis:k_to_g", "k_to_g(k, angles, axis, pre, post) != pre . rot(axis, angle) . post . k",
                      dict(adesc, pre=pre is not None, post=post is not None))
    dl = float(r.uniform(-200, 200))
    gk2 = gv_general.k_to_g(v, ang + dl, axis=ax, pre=pre, post=post)
    Rd = Pm @ hrot(ax, dl)[0] @ Pm.T
    if (rel(gk2, Rd @ np.asarray(gk, F)) > 4 * tol).any() or \
            (rel(np.sqrt((gk2 * gk2).sum(axis=0)), np.sqrt((np.asarray(v, F) ** 2).sum(axis=0))) > 3 * tol).any():
        run.violation("axis:k_to_g:rigid", "a change of the angle in k_to_g is not a rigid rotation about the (pre-rotated) axis",
                      dict(adesc, delta=dl))


def inverse_law(run, mods, p, desc, r, n):
    transform, gv_general = mods
    lam, wedge, chi = p["wavelength"], p["wedge"], p["chi"]
    g = gen_g(r, lam, wedge, chi, n)
    x, A, modg = reach(g, lam, wedge, chi)
    margin = 1e-9
    with np.errstate(invalid="ignore"):
        can = (np.abs(x) < 1 - margin) & (A > 1e-12 * np.maximum(modg, 1e-300)) & (modg * lam / 2 < 1 - margin)
        cannot = (np.abs(x) > 1 + margin) | ((A == 0) & (modg > 0)) | (modg * lam / 2 > 1 + margin)
    cannot &= ~can
    with np.errstate(invalid="ignore"):
        tth, (eta1, eta2), (om1, om2) = transform.uncompute_g_vectors(g, lam, wedge=wedge, chi=chi)
    run.count("inverse_reachable", int(can.sum()))
    run.count("inverse_unreachable", int(cannot.sum()))
    run.count("inverse_margin_skipped", int((~can & ~cannot).sum()))
    run.count("inverse_total", int(g.shape[1]))
    # how many decided g sit next to the blind-cone boundary (| |x| - 1 | < 2e-2), by wedge/chi class: this is what
    # shows that the boundary generator in gen_g works for tilted axes too
    with np.errstate(invalid="ignore"):
        nearb = (np.abs(np.abs(x) - 1) < 2e-2) & (can | cannot)
    run.count("cone_boundary_decided:" + ("wedge=chi=0" if wedge == chi == 0 else "tilted-axis"), int(nearb.sum()))
    # unreachable: invalid marker.  "Flagged invalid instead of being given angles": every one of the five outputs is
    # 0 or NaN (the code multiplies by the valid mask; tth is NaN when |g| > 2/lambda)
    def nul(v):
        return (v == 0) | np.isnan(v)
    marker = nul(tth) & nul(eta1) & nul(eta2) & nul(om1) & nul(om2)
    bad = cannot & ~marker
    if bad.any():
        i = int(np.nonzero(bad)[0][0])
        run.violation("inverse:unreachable-not-flagged",
                      "g that cannot diffract was given angles: g=%r tth=%r eta=%r,%r omega=%r,%r x=%r"
                      % (g[:, i].tolist(), tth[i], eta1[i], eta2[i], om1[i], om2[i], x[i]),
                      dict(desc, pars=p, g=g[:, i].tolist()))
    # reachable: both solutions map forward onto g
    if can.any():
        gi = g[:, can]
        s = modg[can] * lam / 2
        xc = x[can]
        tol = (1e-9 + 1e-14 / np.sqrt(1 - xc * xc) + 1e-14 / np.sqrt(1 - s * s)) * modg[can]
        for lab, eta, om in (("sol1", eta1, om1), ("sol2", eta2, om2)):
            gf = transform.compute_g_vectors(tth[can], eta[can], om[can], lam, wedge=wedge, chi=chi)
            err = np.sqrt(((gf - gi) ** 2).sum(axis=0))
            b = ~(err <= tol)
            run.count("inverse_roundtrips", int(can.sum()))
            if b.any():
                j = int(np.nonzero(b)[0][0])
                run.violation("inverse:roundtrip:" + lab,
                              "uncompute->compute does not return g: g=%r got=%r err=%.3g tol=%.3g x=%r"
                              % (gi[:, j].tolist(), gf[:, j].tolist(), err[j], tol[j], xc[j]),
                              dict(desc, pars=p, g=gi[:, j].tolist()))
        # the two solutions are the two DIFFERENT roots of P cos(w) + Q sin(w) = rhs:  w = phi +- acos(x), so their
        # separation is exactly 2 acos|x| (mod 360) - an implementation returning the same root twice, or a root and its
        # mirror about the wrong line, passes the per-solution round trip above but not this.
        # Tolerance: d(acos x) = dx / sqrt(1 - x^2); dx is the rounding of x = rhs/A evaluated in double here and in the
        # code: <= ~8 eps (|g|^2 lam/2 + |a2 gz| + A) / A (the two terms of rhs can cancel); both roots carry it, plus
        # 1e-9 deg for the degrees/arctan2 wrap.  At the 1e-9 margin sqrt(1-x^2) >= 4.5e-5, separation >= 5e-3 deg.
        WCa = np.asarray(geom.Wmat(wedge) @ geom.Cmat(chi), float)[0]
        dx = 8 * np.finfo(float).eps * (modg[can] ** 2 * lam / 2 + np.abs(WCa[2] * gi[2]) + A[can]) / A[can]
        sep_want = np.degrees(2 * np.arccos(np.minimum(np.abs(xc), 1.0)))
        sep_got = np.abs(np.asarray(geom.angdiff(om1[can], om2[can]), float))
        sep_tol = 1e-9 + np.degrees(4 * dx / np.sqrt(1 - xc * xc))
        run.count("inverse_solution_separations", int(can.sum()))
        b = ~(np.abs(sep_got - sep_want) <= sep_tol)
        if b.any():
            j = int(np.nonzero(b)[0][0])
            run.violation("inverse:solutions-separation",
                          "the two omega solutions %r, %r are %.12g deg apart, the two roots of the Laue condition are "
                          "2.acos|x| = %.12g deg apart (x=%r) g=%r" % (om1[can][j], om2[can][j], sep_got[j], sep_want[j],
                                                                     xc[j], gi[:, j].tolist()),
                          dict(desc, pars=p, g=gi[:, j].tolist()))
        # direct g_to_k / k_to_g: k must satisfy Laue: |k + kin| = 1/lam
        post = None if wedge == chi == 0 else gv_general.wedgechi(wedge=wedge, chi=chi)
        o1, o2, valid = gv_general.g_to_k(gi, lam, axis=[0, 0, -1], pre=None, post=post)
        if not valid.all():
            run.violation("inverse:valid-mask", "g_to_k flags a reachable g invalid",
                          dict(desc, pars=p, g=gi[:, int(np.nonzero(~valid)[0][0])].tolist()))
        pre = None if post is None else gv_general.chiwedge(wedge=wedge, chi=chi).T
        for o in (o1, o2):
            k = gv_general.k_to_g(gi, o, axis=[0, 0, 1], pre=pre, post=None)
            kin = np.array([1 / lam, 0, 0])[:, None]
            e = np.abs(np.sqrt(((k + kin) ** 2).sum(axis=0)) - 1 / lam)
            tolk = (1e-9 + 1e-14 / np.sqrt(1 - xc * xc)) * np.maximum(modg[can], 1e-3 / lam)
            if (~(e <= tolk)).any():
                j = int(np.nonzero(~(e <= tolk))[0][0])
                run.violation("inverse:laue", "k from g_to_k/k_to_g is not on the Ewald sphere "
                              "g=%r err=%.3g" % (gi[:, j].tolist(), e[j]),
                              dict(desc, pars=p, g=gi[:, j].tolist()))
    # batches of one and of zero g-vectors (a single peak, an empty peak list): same verdicts, same shapes
    if can.any() and cannot.any():
        for j in (int(np.nonzero(can)[0][0]), int(np.nonzero(cannot)[0][0])):
            g1 = np.ascontiguousarray(g[:, j:j + 1])
            with np.errstate(invalid="ignore"):
                t1, (e1a, e1b), (o1a, o1b) = transform.uncompute_g_vectors(g1, lam, wedge=wedge, chi=chi)
            run.count("inverse_single_g_batches")
            got1 = np.array([t1[0], e1a[0], e1b[0], o1a[0], o1b[0]])
            ref1 = np.array([tth[j], eta1[j], eta2[j], om1[j], om2[j]])
            # same arithmetic on one column instead of n: identical up to BLAS blocking of the 3x3 products (1e-9 deg)
            same = np.all((np.abs(got1 - ref1) <= 1e-9 * (1 + np.abs(ref1))) | (np.isnan(got1) & np.isnan(ref1)))
            if not same or any(np.shape(v) != (1,) for v in (t1, e1a, e1b, o1a, o1b)):
                run.violation("inverse:single-g-batch", "uncompute_g_vectors on a batch of one g gives %r, in a batch of %d "
                              "the same g gave %r" % (got1.tolist(), g.shape[1], ref1.tolist()),
                              dict(desc, pars=p, g=g[:, j].tolist()))
        # batches of two, three and four g-vectors: the (3,n) layout is the documented one, so a (3,3) batch is three
        # g-vectors in columns, not rows; each column must get the answer it got in the big batch
        for k in (2, 3, 4):
            if g.shape[1] < k + 1:
                continue
            sel = r.choice(g.shape[1], k, replace=False)
            gk = np.ascontiguousarray(g[:, sel])
            with np.errstate(invalid="ignore"):
                tk, (eka, ekb), (oka, okb) = transform.uncompute_g_vectors(gk, lam, wedge=wedge, chi=chi)
            run.count("inverse_small_batches")
            gotk = np.array([tk, eka, ekb, oka, okb])
            refk = np.array([tth[sel], eta1[sel], eta2[sel], om1[sel], om2[sel]])
            if gotk.shape != refk.shape or not np.all((np.abs(gotk - refk) <= 1e-9 * (1 + np.abs(refk))) |
                                                      (np.isnan(gotk) & np.isnan(refk))):
                run.violation("inverse:small-batch", "uncompute_g_vectors on a (3,%d) batch gives %r, in a batch of %d the "
                              "same g-vectors gave %r" % (k, gotk.tolist(), g.shape[1], refk.tolist()),
                              dict(desc, pars=p, g=gk.tolist()))
        t0, (e0a, e0b), (o0a, o0b) = transform.uncompute_g_vectors(np.zeros((3, 0)), lam, wedge=wedge, chi=chi)
        run.count("inverse_empty_batches")
        if any(np.shape(v) != (0,) for v in (t0, e0a, e0b, o0a, o0b)):
            run.violation("inverse:empty-batch", "uncompute_g_vectors on zero g-vectors does not return empty arrays",
                          dict(desc, pars=p))
    # uncompute_one_g_vector(gv, wavelength, wedge): the single-vector entry point (it has no chi argument, so it
    # is driven at chi = 0): both solutions must map forward onto g / unreachable must be flagged
    x0, A0, modg0 = reach(g, lam, wedge, 0.0)
    with np.errstate(invalid="ignore"):
        can0 = (np.abs(x0) < 1 - margin) & (A0 > 1e-12 * np.maximum(modg0, 1e-300)) & (modg0 * lam / 2 < 1 - margin)
        cannot0 = ((np.abs(x0) > 1 + margin) | ((A0 == 0) & (modg0 > 0)) | (modg0 * lam / 2 > 1 + margin)) & ~can0
    for msk_, lab in ((can0, "reachable"), (cannot0, "unreachable")):
        for j in np.nonzero(msk_)[0][:3]:
            with np.errstate(invalid="ignore"):
                t1, e1, o1 = transform.uncompute_one_g_vector(g[:, j].copy(), lam, wedge=wedge)
            run.count("uncompute_one_g_vector:" + lab)
            if lab == "unreachable":
                vals = np.array([t1, e1[0], e1[1], o1[0], o1[1]], float)
                if not np.all((vals == 0) | np.isnan(vals)):
                    run.violation("inverse:one_g:unreachable-not-flagged",
                                  "uncompute_one_g_vector gave angles %r to a g that cannot diffract (x=%r)"
                                  % (vals.tolist(), x0[j]), dict(desc, pars=p, g=g[:, j].tolist(), chi_used=0.0))
                continue
            s1 = modg0[j] * lam / 2
            tol1 = (1e-9 + 1e-14 / np.sqrt(1 - x0[j] ** 2) + 1e-14 / np.sqrt(1 - s1 * s1)) * modg0[j]
            for k_ in (0, 1):
                gf = transform.compute_g_vectors(np.array([t1]), np.array([e1[k_]]), np.array([o1[k_]]), lam,
                                                 wedge=wedge, chi=0.0)[:, 0]
                err1 = float(np.sqrt(((gf - g[:, j]) ** 2).sum()))
                if not err1 <= tol1:
                    run.violation("inverse:one_g:roundtrip", "uncompute_one_g_vector solution %d does not map forward onto g: "
                                  "g=%r got=%r err=%.3g tol=%.3g" % (k_ + 1, g[:, j].tolist(), gf.tolist(), err1, tol1),
                                  dict(desc, pars=p, g=g[:, j].tolist(), chi_used=0.0))
    return bool(can.any() and cannot.any())


def detector_roundtrip(run, transform, p, desc, r, n):
    tth = r.uniform(0.05, 55, n)
    tth[: n // 10] = r.uniform(55, 78, n // 10)    # steep rays; those with |n.ray| <= 0.2 are dropped below
    eta = r.uniform(-180, 180, n)
    om = r.uniform(-360, 360, n)
    # harness: does the ray hit the front of the detector plane?
    R = np.asarray(geom.det_tilt(p), float)
    normal = np.cross(R[:, 1], R[:, 2])     # +-x for small tilts
    rt, re = np.radians(tth), np.radians(eta)
    ray = np.array([np.cos(rt), -np.sin(rt) * np.sin(re), np.sin(rt) * np.cos(re)])
    go = np.asarray(geom.grain_origins(dict(p, omegasign=1.0), om, (p["t_x"], p["t_y"], p["t_z"])), float).T
    nd = normal @ ray
    dist = (normal @ (np.array([[p["distance"]], [0], [0]]) - go)) / nd
    ok = (dist > 0) & (np.abs(nd) > 0.2)
    pp = {k: v for k, v in p.items() if k not in ("omegasign", "wavelength")}
    if desc.get("index", 0) % 2:
        # the package convention: the whole parameter dictionary is passed on (omegasign included) together with an
        # omega that already carries the sign; both directions must treat that dictionary the same way
        pp["omegasign"] = p.get("omegasign", 1.0)
        run.count("detector_roundtrips_with_omegasign_in_the_dictionary")
        if pp["omegasign"] < 0:
            run.count("detector_roundtrips_with_omegasign_-1_in_the_dictionary")
    fc, sc = transform.compute_xyz_from_tth_eta(tth, eta, om, **pp)
    tth2, eta2 = transform.compute_tth_eta(np.array((sc, fc)), omega=om, **pp)
    dperp = dist * np.sin(rt)
    # the projection passes through pixel coordinates: position errors of ~1e-13 relative to the geometry scale
    # (distance + detector extent, conditioning of the plane intersection ~1e3) are the floating point limit;
    # observed worst on the unchanged tree 2.3e-7 um at scale 1.4e6 um (DESIGN.md Corrections)
    scale = abs(p["distance"]) + 2048 * (abs(p["y_size"]) + abs(p["z_size"])) + abs(p["t_x"]) + abs(p["t_y"]) + abs(p["t_z"])
    pos_tol = 1e-12 * scale
    tolt = 1e-9 + np.degrees(pos_tol / np.abs(dist))
    tole = 1e-9 + np.degrees(pos_tol / np.maximum(np.abs(dperp), 1e-9))
    run.count("detector_roundtrips", int(ok.sum()))
    run.count("detector_roundtrips_tth>55", int((ok & (tth > 55)).sum()))
    b = ok & ~((np.abs(tth2 - tth) <= tolt) & (np.abs(np.asarray(geom.angdiff(eta2, eta), float)) <= tole))
    if b.any():
        j = int(np.nonzero(b)[0][0])
        run.violation("detector:roundtrip:python",
                      "compute_xyz_from_tth_eta -> compute_tth_eta: tth %r->%r eta %r->%r"
                      % (tth[j], tth2[j], eta[j], eta2[j]), dict(desc, pars=p, peak=j))
    # C route back: same pixels through Ctransform (omega/omegasign so that signed omega = om)
    ct = transform.Ctransform(p)
    xyz = ct.sf2xyz(sc, fc)
    geo = ct.xyz2geometry(xyz, om / p["omegasign"], p["t_x"], p["t_y"], p["t_z"])
    b = ok & ~((np.abs(geo[:, 0] - tth) <= tolt) &
               (np.abs(np.asarray(geom.angdiff(geo[:, 1], eta), float)) <= tole))
    if b.any():
        j = int(np.nonzero(b)[0][0])
        run.violation("detector:roundtrip:C",
                      "compute_xyz_from_tth_eta -> C compute_geometry: tth %r->%r eta %r->%r"
                      % (tth[j], geo[j, 0], eta[j], geo[j, 1]), dict(desc, pars=p, peak=j))


def columnfile_history(run, mods, p, desc, seed, idx):
    """one columnfile, parameters changed between updates by the routes users have (parameters.set, the dictionary,
    loadparameters, a new parameter object, setparameters): after every update the columns must obey Bragg's law for the
    wavelength held NOW, |g| = ds, and project back onto the peaks with the geometry held NOW"""
    transform, columnfile, parameters = mods
    import os, tempfile
    from ..common import WORK
    r = rng(seed, "C02", idx, "cfhist")
    n = 64
    sc, fc, om = r.uniform(0, 2048, n), r.uniform(0, 2048, n), r.uniform(-360, 360, n)
    cf = columnfile.colfile_from_dict({"sc": sc.copy(), "fc": fc.copy(), "omega": om.copy()})
    cf.parameters = parameters.parameters(**p)
    cur = dict(p)
    fast = bool(idx % 2)
    cf.updateGeometry(fast=fast)
    for step in range(3):
        q = gen_pars(rng(seed, "C02", idx, "cfhist", step), int(r.integers(8)), int(r.integers(1 << len(SW))))
        how = ["set", "dict", "loadparameters", "assign", "setparameters"][int(r.integers(5))]
        keys = ["wavelength", "distance", "y_center", "z_center", "tilt_x", "o11", "o12", "o21", "o22", "wedge", "chi", "omegasign"]
        if how == "set":
            for k in keys:
                cf.parameters.set(k, q[k])
                cur[k] = q[k]
        elif how == "dict":
            cf.parameters.parameters.update({k: q[k] for k in keys})
            cur.update({k: q[k] for k in keys})
        elif how == "loadparameters":
            os.makedirs(os.path.join(WORK, "tmp"), exist_ok=True)
            fd, fn = tempfile.mkstemp(prefix="c02_", suffix=".par", dir=os.path.join(WORK, "tmp"))
            os.close(fd)
            try:
                parameters.parameters(**q).saveparameters(fn)
                cf.parameters.loadparameters(fn)
            finally:
                os.remove(fn)
            cur = dict(q)
        elif how == "assign":
            cf.parameters = parameters.parameters(**q)
            cur = dict(q)
        else:
            cf.setparameters(parameters.parameters(**q))
            cur = dict(q)
        cf.updateGeometry(fast=fast)
        lam = cur["wavelength"]
        th = np.radians(np.asarray(cf.tth, F)) / 2
        want = 2 * np.sin(th) / F(lam)
        modg = np.sqrt(np.asarray(cf.gx, F) ** 2 + np.asarray(cf.gy, F) ** 2 + np.asarray(cf.gz, F) ** 2)
        run.count("columnfile_history_steps")
        d = dict(desc, history=how, step=step)
        if (rel(cf.ds, want) > 1e-12 / lam).any() or (rel(modg, want) > 1e-12 / lam).any():
            run.violation("columnfile:history:bragg", "after the parameters were changed through %s the columns do not obey "
                          "Bragg's law / |g| = ds for the wavelength now held (%g)" % (how, lam), d)
            return
        ref = geom.forward(cur, sc, fc, om, (cur["t_x"], cur["t_y"], cur["t_z"]))
        gtol = 1e-12 / lam
        if max(np.abs(np.asarray(cf.gx, F) - ref["g"][:, 0]).max(), np.abs(np.asarray(cf.gy, F) - ref["g"][:, 1]).max(),
               np.abs(np.asarray(cf.gz, F) - ref["g"][:, 2]).max()) > gtol:
            run.violation("columnfile:history:geometry", "after the parameters were changed through %s the g-vector columns are "
                          "not those of the geometry now held" % how, d)
            return


def one_case(run, seed, idx, flip, bits, mods):
    transform, gv_general, columnfile, parameters = mods
    r = rng(seed, "C02", idx)
    p = gen_pars(r, flip, bits)
    # wedge / chi from the special set now and then
    if idx % 3 == 1:
        p["wedge"] = float(r.choice([0, 1e-3, -1e-3, 5, -5, 30, -30])) if p["wedge"] else 0.0
        p["chi"] = float(r.choice([0, 1e-3, -1e-3, 5, -5, 30, -30])) if p["chi"] else 0.0
    desc = dict(index=idx, flip=flip, bits=bits)
    n = 500 if run.tier == "quick" else 1500
    laws_forward(run, transform, p, desc, r, n)
    from ImageD11 import cImageD11
    cImageD11.cimaged11_omp_set_num_threads([1, 2, 4, 8, 16][idx % 5])
    laws_c(run, (transform, columnfile, parameters), p, desc, r, 200 if idx % 4 else 4000)
    cImageD11.cimaged11_omp_set_num_threads(4)
    if idx % 4 == 1:
        columnfile_history(run, (transform, columnfile, parameters), p, desc, seed, idx)
    both = inverse_law(run, (transform, gv_general), p, desc, r, n)
    axis_laws(run, gv_general, p, desc, rng(seed, "C02", idx, "axis"), 64)
    detector_roundtrip(run, transform, p, desc, r, 300)
    run.case((flip, bits, idx % 3), nontrivial=both or p["wedge"] != 0 or p["chi"] != 0,
             sample=dict(desc, wavelength=p["wavelength"], wedge=p["wedge"], chi=p["chi"],
                         omegasign=p["omegasign"]))


def check(run, replay=None):
    from ImageD11 import transform, gv_general, columnfile, parameters
    mods = (transform, gv_general, columnfile, parameters)
    run.assumptions += [
        "reachability decided by the harness' closed form P cos w + Q sin w = rhs with a 1e-9 margin "
        "inside which either answer is accepted",
        "round-trip tolerance 1e-9 relative + 1e-14/sqrt(1-x^2) (tangent conditioning) + 1e-14/sqrt(1-s^2)",
        "detector round trip restricted to rays that hit the front of the detector plane (|n.ray|>0.2)",
    ]
    if replay is not None:
        cs = replay["case"]
        one_case(run, replay["seed"], cs["index"], cs["flip"], cs["bits"], mods)
        run.nontrivial.update(["replay", "replay2"])
        return
    r = rng(run.seed, "C02", "plan")
    ncase = 400 if run.tier == "quick" else 4000
    nb = len(SW)
    for idx in range(ncase):
        flip = idx % 8
        if idx < 16:
            bits = 0 if idx < 8 else (1 << nb) - 1
        else:
            bits = int(r.integers(1 << nb))
        one_case(run, run.seed, idx, flip, bits, mods)
    run.require_counter("inverse_roundtrips", 1000)
    run.require_counter("columnfile_history_steps", 100)
    run.require_counter("inverse_unreachable", 100)
    run.require_counter("detector_roundtrips", 1000)
    run.require_counter("detector_roundtrips_tth>55", 100)
    run.require_counter("inverse_solution_separations", 1000)
    run.require_counter("cone_boundary_decided:tilted-axis", 1000)
    run.require_counter("cone_boundary_decided:wedge=chi=0", 100)
    run.require_counter("compute_geometry_g_laws", 1000)
    run.require_counter("general_axis_laws", 1000)
    for c_ in ("k_to_g_general:none", "k_to_g_general:pre", "k_to_g_general:post", "k_to_g_general:prepost"):
        run.require_counter(c_, 64)
    run.require_counter("uncompute_one_g_vector:reachable", 100)
    run.require_counter("uncompute_one_g_vector:unreachable", 100)
    run.require_counter("inverse_single_g_batches", 100)
    # the margin (decided by nobody) must stay a small part of the workload: by construction it holds the boundary
    # samples with |dlt| <= 1e-10 (n/4 * 5/13 of a batch = 9.6 %) plus |g| lam/2 == 1 (3 %); more than 20 % would mean
    # the harness generator or reach() slipped and the inverse law is being decided on too little
    tot = run.counters.get("inverse_total", 0)
    if tot and run.counters.get("inverse_margin_skipped", 0) > 0.20 * tot:
        run.inconc("inverse law: %d of %d g-vectors fell into the undecided 1e-9 margin (> 20 %%)"
                   % (run.counters.get("inverse_margin_skipped", 0), tot))


# workloads added in seeding rounds 7-10 (DESIGN.md sections 13.9-13.12)
LEVEL_TEXT = LEVEL_TEXT + ' Later additions: batches of 2-4 g-vectors against the big batch; detector round trips with the whole parameter dictionary (omegasign included).'
