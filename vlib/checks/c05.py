"""C05 - two indexed reflections determine the orientation (Busing-Levy).

Oracle: lattice-equivalence checker against the generating grain.  For the
true UB_t, a candidate UBI is right iff M = UBI.UB_t is an integer matrix with
det +1 and UBI.UBI^T is the cell metric.  Degenerate angle classes are found by
the harness by enumerating every hkl pair on the two rings and splitting each
equal-angle class into its symmetry-inequivalent sub-classes.
"""
import numpy as np
from .. import xtal
from ..common import rng

TECHNIQUE = ("runtime oracle monitor: lattice-equivalence check (integer unimodular M = UBI.UB_true, metric "
             "preserved, right-handed) of every orientation returned by unitcell.orient for simulated g-vector pairs; "
             "harness enumeration of degenerate angle classes and of their symmetry-inequivalent sub-classes")
LEVEL_TEXT = ("Exploration: for generated lattices (seven systems + pseudo-symmetric cells, conventional centrings incl. R on "
              "hexagonal axes, plus arbitrary centring/cell combinations), rotations (Haar, identity, axis-aligned, 180 deg), ring "
              "pairs drawn over all rings below a d* limit (same-ring pairs included), ONE hkl pair from every symmetry-inequivalent "
              "sub-class of every equal-angle class (not only those filter_pairs kept) plus random extra pairs: unitcell.orient "
              "is called in nearest-pair mode and in cosine-range mode with crange in {0.002, 0.02, 0.1, 0.5, 2.5}, with exact g-vectors and "
              "with g-vectors perturbed by 1e-4 (noise or a strained/rotated generating grain); every returned candidate is judged "
              "against the generating grain, candidate lists are checked pairwise for duplicates, getanglehkls tables are checked "
              "for order/consistency, and the module-level orient_BL is checked on the true pair.")
LEVEL_NOTE = ("Trusts harness B matrix and Busing-Levy construction used to classify degenerate angle classes; "
              "near-collinear pairs (|cos|>=0.98) excluded as filter_pairs documents; integer tolerance 1e-6 for exact g "
              "(plus the actual d* width of the ring and the 2.1e-8 cosine cluster width of filter_pairs), "
              "cond(B).noise.(1+2/sin(angle)) for perturbed g.")

RULE = ("a case = (cell, centring, rotation, ring pair, hkl pair, mode, exact/perturbed g); non-trivial = the angle class holds "
        "more than one hkl pair (symmetry-degenerate) or rings differ; distinct = (cell kind, centring, ring pair, "
        "sorted |hkl| pair, mode)")

NOISE = 1e-4
CRANGES = (0.002, 0.02, 0.1, 0.5, 2.5)


def bl_ubi(B, ha, hb, g1, g2):
    """harness Busing-Levy: UBI that gives ha to g1 and puts hb in the g1,g2 plane"""
    def unit(v):
        return v / np.sqrt(v @ v)
    h1c, h2c = B @ ha, B @ hb
    t1c = unit(h1c)
    t3c = unit(np.cross(h1c, h2c))
    t2c = np.cross(t3c, t1c)
    t1g = unit(g1)
    t3g = unit(np.cross(g1, g2))
    t2g = np.cross(t3g, t1g)
    Tc = np.array([t1c, t2c, t3c]).T
    Tg = np.array([t1g, t2g, t3g]).T
    U = Tg @ Tc.T
    return np.linalg.inv(U @ B)


def equivalent(ubi, UB_t, tol=1e-6):
    M = ubi @ UB_t
    Mi = np.round(M)
    return bool(np.abs(M - Mi).max() <= tol and abs(np.linalg.det(Mi) - 1) < 1e-9)


def pseudo_cell(r, j):
    a = float(r.uniform(3, 8))
    e = float(r.choice([1e-3, 1e-2]))
    opts = [
        [a, a * (1 + e), float(r.uniform(3, 8)), 90, 90, 90],          # a ~ b
        [a, float(r.uniform(3, 8)), float(r.uniform(3, 8)), 90, 90, 90 + 0.05],  # gamma ~ 90
        [a, a, a * np.sqrt(8 / 3.0), 90, 90, 120],                     # ideal hcp c/a
        [a, a, a, 60.0, 60.0, 60.0],                                   # rhombohedral = fcc primitive
        [a, a, a, 109.4712206, 109.4712206, 109.4712206],              # bcc primitive
        [a, a, a, 90.0 + 0.02, 90.0 + 0.02, 90.0 + 0.02],              # nearly cubic
    ]
    return [float(x) for x in opts[j % len(opts)]]


# conventional centrings of each lattice system (hexagonal axes carry the R lattice); monoclinic is generated with
# unique axis b, where A, C and I are the three settings of the one centred monoclinic lattice
CENTRINGS = {"cubic": "PIF", "tetragonal": "PI", "orthorhombic": "PCIFAB", "monoclinic": "PCAI",
             "hexagonal": "PR", "rhombohedral": "P", "triclinic": "P"}
NPSEUDO = 6
ROTKINDS = ["haar", "haar", "haar", "haar", "identity", "axis90", "pi", "near-identity"]


def gen_rotation(r, kind):
    if kind == "axis90":
        # signed permutation matrix with det +1 (a 90/180/120 degree rotation of the cube group)
        while True:
            P = np.zeros((3, 3))
            for i, j in enumerate(r.permutation(3)):
                P[i, j] = r.choice([-1.0, 1.0])
            if np.linalg.det(P) > 0:
                return P
    return xtal.random_rotation(r, kind)


DEEP0 = 10 ** 6


def one_case(run, seed, idx, unitcell):
    r = rng(seed, "C05", idx)
    # one stratified pass (7 lattice systems, 6 pseudo-symmetric cells, R centring), afterwards everything is drawn from
    # the case's own rng so that no two dimensions are tied together through idx
    nstrat = 7 + NPSEUDO
    if idx < 7:
        kind = xtal.KINDS[idx]
    elif idx < nstrat:
        kind = "pseudo"
    else:
        kind = "pseudo" if r.random() < 0.25 else xtal.KINDS[int(r.integers(7))]
    deep = idx >= DEEP0
    if deep:
        # cubic cells taken far out in d*: rings on which two or three reflection families coincide ((411)+(330), (300)+(221),
        # (333)+(511)) and equal-angle classes with many inequivalent members, every sub-class of the heaviest pairs tested
        kind = "cubic"
        cell = xtal.random_cell(r, kind, 3.0, 9.0)
        sym = "PIF"[idx % 3]
        run.count("deep_cubic_cases")
    elif kind == "pseudo":
        cell = pseudo_cell(r, idx - 7 if idx < nstrat else int(r.integers(NPSEUDO)))
        sym = "P"
    else:
        cell = xtal.random_cell(r, kind, 3.0, 9.0)
        sym = CENTRINGS[kind]
        sym = sym[int(r.integers(len(sym)))]
        if kind == "hexagonal" and idx < nstrat:
            sym = "R"                                  # guaranteed once per run
        elif r.random() < 0.15:
            sym = "PABCIFR"[int(r.integers(7))]        # any centring on any cell is still a lattice
    # large cells (protein / zeolite sized): reciprocal vectors of 0.01-0.05 1/A; nothing in the statement bounds the
    # cell size, and absolute thresholds on products of g-vectors would only show here
    big = 1.0
    if kind != "pseudo" and (idx % 6 == 4 if idx >= nstrat else idx == 3):
        big = float(r.choice([8.0, 15.0, 25.0]))
        cell = [c * big for c in cell[:3]] + list(cell[3:])
        run.count("large_cells")
    run.count("centring:" + sym)
    B = xtal.Bmat(cell)
    G = xtal.metric(cell)
    V = np.sqrt(np.linalg.det(G))
    # d* limit giving ~ 60-250 lattice points of the primitive cell (up to 600 in the thorough tier)
    npts = r.uniform(60, 250) if (run.tier == "quick" or r.random() < 0.5) else r.uniform(250, 600)
    if deep:
        npts = [450.0, 650.0, 1200.0][idx % 3]
    dsmax = float((npts / (4.19 * V)) ** (1 / 3.0))
    uc = unitcell.unitcell(cell, sym)
    rotk = ROTKINDS[idx % len(ROTKINDS)] if idx < len(ROTKINDS) else ROTKINDS[int(r.integers(len(ROTKINDS)))]
    R = gen_rotation(r, rotk)
    run.count("rotation:" + rotk)
    UB_t = R @ B
    # history on ONE unitcell object: rings are re-made with other tolerances (this changes ring membership and
    # numbering for pseudo-symmetric cells); every orientation request afterwards must still be answered for the
    # rings as they are now
    tols = [1e-4, 2e-2, 1e-4, 5e-3] if (idx % 3 == 0 if idx < nstrat else r.random() < 0.34) else [1e-4]
    tols = [t_ / big for t_ in tols]                   # ring tolerances are absolute in d*: keep them relative to 1/a
    ctx = dict(index=idx, cell=cell, sym=sym, kind=kind, rot=rotk)
    for hstep, tol in enumerate(tols):
        try:
            uc.makerings(dsmax, tol)
        except IndexError:
            run.count("cells_skipped_no_reflection")
            return
        if hstep:
            run.count("rering_history_steps")
        run_pairs(run, r, ctx, uc, unitcell, B, G, UB_t, tol, hstep)


def subclasses(B, h1s, h2s, members):
    """split the hkl pairs of one equal-angle class into symmetry-equivalence sub-classes: p ~ q iff the Busing-Levy
    orientation that indexes the g-vectors of p as q is lattice-equivalent to the identity orientation.  Returns a
    list of lists of (i, j)."""
    left = [tuple(m) for m in members]
    out = []
    while left:
        a0, b0 = left[0]
        g1, g2 = B @ h1s[a0], B @ h2s[b0]
        same, rest = [left[0]], []
        for (a, b) in left[1:]:
            if equivalent(bl_ubi(B, h1s[a], h2s[b], g1, g2), B):
                same.append((a, b))
            else:
                rest.append((a, b))
        out.append(same)
        left = rest
    return out


def check_table(run, uc, B, r1, r2, desc):
    """getanglehkls(ring1, ring2): what orient's searchsorted / range lookup relies on"""
    hab, c2ab, matrs = uc.getanglehkls(int(r1), int(r2))
    run.count("anglehkl_tables_checked")
    c = np.asarray(c2ab, float)
    if not (len(hab) == len(c) == len(matrs)):
        run.violation("getanglehkls:lengths", "getanglehkls returns %d pairs, %d cosines, %d matrices"
                      % (len(hab), len(c), len(matrs)), desc)
        return
    if len(c) > 1 and (np.diff(c) < 0).any():
        run.violation("getanglehkls:order", "cosine table is not ascending (orient looks it up with searchsorted)", desc)
    for k_, (ha, hb) in enumerate(hab):
        ga, gb = B @ np.asarray(ha, float), B @ np.asarray(hb, float)
        cc = float(ga @ gb / np.sqrt((ga @ ga) * (gb @ gb)))
        # the table cosine is that of the first pair of a cluster that spans < 2.1e-8 (filter_pairs), the pair kept may be
        # any member of the cluster
        if abs(cc - c[k_]) > 2.2e-8 or abs(c[k_]) >= 0.98 + 3e-8:
            run.violation("getanglehkls:cosine", "table entry %d: cos %.12g listed for pair %r %r whose cosine is %.12g"
                          % (k_, c[k_], tuple(ha), tuple(hb), cc), desc)
            break


def run_pairs(run, r, ctx, uc, unitcell, B, G, UB_t, tol, hstep):
    nr = len(uc.ringds)
    if nr < 1:
        return
    quick = run.tier == "quick"
    maxpairs = 9 if quick else 16
    maxreps = 36 if quick else 60
    nextra = 4 if quick else 6
    if hstep:
        maxpairs, maxreps, nextra = maxpairs // 2, maxreps // 3, 2
    # ring pairs: half of them among the first 8 rings (low multiplicity, the ones indexing uses), the rest anywhere
    lo = [(i, j) for i in range(min(nr, 8)) for j in range(i, min(nr, 8))]
    hi = [(i, j) for i in range(nr) for j in range(i, nr) if j >= 8]
    rp = []
    for pool, cnt in ((lo, maxpairs - maxpairs // 2 if hi else maxpairs), (hi, maxpairs // 2)):
        if len(pool) > cnt:
            sel = r.choice(len(pool), cnt, replace=False)
            pool = [pool[k] for k in sorted(sel)]
        rp += pool
    # the ring pairs with the largest number of hkl pairs (cubic rings where two families coincide, (411)+(330), (300)+(221):
    # equal-angle classes with many inequivalent members) are always part of the run
    mult = [len(uc.ringhkls[uc.ringds[i]]) for i in range(nr)]
    heavy = sorted(((mult[i] * mult[j], i, j) for i in range(nr) for j in range(i, nr) if mult[i] * mult[j] <= 3000), reverse=True)
    heavy_set = set()
    if ctx.get("kind") == "cubic" and not hstep:
        for _, i, j in heavy[: (6 if ctx["index"] >= DEEP0 else (1 if quick else 3))]:
            heavy_set.add((i, j))
            if (i, j) not in rp:
                rp.append((i, j))
            run.count("ringpairs_heaviest_every_subclass")
    # ring order: orient(ring1, g1, ring2, g2) takes the rings in the order of the two peaks, so (r1, r2) with r1 > r2 is
    # as legitimate as r1 < r2, and one object sees both orders (own stream: the draws above are unchanged)
    ro = np.random.default_rng([int(r.integers(2 ** 31)), 5])
    rp2 = []
    for (i, j) in rp:
        u = ro.random() if i != j else 1.0
        if u < 0.15:
            rp2 += [(i, j), (j, i)]
        elif u < 0.3:
            rp2 += [(j, i), (i, j)]
        elif u < 0.4:
            rp2 += [(j, i)]
        else:
            rp2 += [(i, j)]
    rp = rp2
    # deep cubic cases: the pair table of EVERY pair of the first sixteen rings is checked for completeness (no orient calls)
    table_only = set()
    if ctx["index"] >= DEEP0 and not hstep:
        for i in range(min(nr, 16)):
            for j in range(i, min(nr, 16)):
                if (i, j) not in rp and (j, i) not in rp and mult[i] * mult[j] <= 3000:
                    rp.append((i, j))
                    table_only.add((i, j))
    condB = float(np.linalg.cond(B))
    for (r1, r2) in rp:
        if r1 > r2:
            run.count("ringpairs_given_in_descending_order")
        h1s = np.array(uc.ringhkls[uc.ringds[r1]], float)
        h2s = np.array(uc.ringhkls[uc.ringds[r2]], float)
        if len(h1s) * len(h2s) > 3000:
            run.count("ringpairs_skipped_too_large")
            continue
        if max(r1, r2) >= 8:
            run.count("ringpairs_beyond_ring_8")
        g1s = h1s @ B.T
        g2s = h2s @ B.T
        n1 = np.sqrt((g1s * g1s).sum(axis=1))
        n2 = np.sqrt((g2s * g2s).sum(axis=1))
        # actual d* width of the two rings (0 unless different reflections overlap within the ring tolerance)
        w1 = float(n1.max() - n1.min())
        w2 = float(n2.max() - n2.min())
        cosm = (g1s @ g2s.T) / np.outer(n1, n2)
        cand = np.argwhere(np.abs(cosm) < 0.98 - 1e-6)
        if len(cand) == 0:
            continue
        rdesc = dict(ctx, ring1=int(r1), ring2=int(r2), ring_tol=tol, history_step=hstep)
        check_table(run, uc, B, r1, r2, rdesc)
        # equal-angle classes of the candidate pairs (same 1e-6 window as before: a pair belongs to the class of every
        # pair within 1e-6, classes are the connected groups of the sorted cosines), then symmetry sub-classes
        cv = cosm[cand[:, 0], cand[:, 1]]
        order = np.argsort(cv, kind="stable")
        cuts = np.nonzero(np.diff(cv[order]) >= 1e-6)[0] + 1
        groups = np.split(order, cuts)
        allcos = np.sort(cosm.ravel())
        todo = []          # (i, j, class size, number of sub-classes, is_representative)
        tab_h, tab_c, _ = uc.getanglehkls(int(r1), int(r2))
        tab_c = np.asarray(tab_c, float)
        for gidx in groups:
            members = cand[gidx]
            subs = subclasses(B, h1s, h2s, members)
            run.count("angle_classes")
            run.count("angle_subclasses", len(subs))
            # the pair table behind orient holds, for every inequivalent orientation of this angle, one hkl pair that
            # gives it (otherwise orient(..., crange) has no candidate for grains whose two reflections are such a pair)
            ct0 = float(cosm[members[0][0], members[0][1]])
            near = np.nonzero(np.abs(tab_c - ct0) < 2e-6)[0]
            for sc_ in subs:
                a0, b0 = sc_[0]
                g1e, g2e = B @ h1s[a0], B @ h2s[b0]
                run.count("table_subclasses_checked")
                if not any(equivalent(bl_ubi(B, np.asarray(tab_h[k_][0], float), np.asarray(tab_h[k_][1], float), g1e, g2e), B)
                           for k_ in near):
                    run.violation("getanglehkls:orientation-missing", "the hkl-pair table of rings (%d, %d) has no pair that gives the "
                                  "orientation of %r / %r (cos %.9f, %d inequivalent orientations in this angle class, %d table "
                                  "entries at this angle)" % (r1, r2, h1s[a0].tolist(), h2s[b0].tolist(), ct0, len(subs), len(near)),
                                  dict(rdesc, h1=h1s[a0].tolist(), h2=h2s[b0].tolist()))
                    break
            for sc_ in subs:
                i, j = sc_[int(r.integers(len(sc_)))]
                todo.append((i, j, len(members), len(subs), True))
        if (r1, r2) in table_only:
            run.count("ringpairs_table_only")
            continue
        if len(todo) > maxreps and (min(r1, r2), max(r1, r2)) not in heavy_set:
            run.count("ringpairs_with_subsampled_subclasses")
            sel = r.choice(len(todo), maxreps, replace=False)
            todo = [todo[k] for k in sorted(sel)]
        else:
            run.count("ringpairs_with_every_subclass_tested")
        # a few arbitrary pairs on top (any member of any class, representative or not)
        for k in r.choice(len(cand), min(nextra, len(cand)), replace=False):
            i, j = cand[k]
            gsel = [gidx for gidx in groups if k in gidx][0]
            todo.append((int(i), int(j), len(gsel), None, False))
        for (i, j, csize, nsub, isrep) in todo:
            h1, h2 = h1s[i], h2s[j]
            ct = float(cosm[i, j])
            if nsub is None:
                win = np.argwhere(np.abs(cosm - ct) < 1e-6)
                g1e, g2e = UB_t @ h1, UB_t @ h2
                nsub = 1 + int(any(not equivalent(bl_ubi(B, h1s[a], h2s[b], g1e, g2e), UB_t) for (a, b) in win))
            degenerate = nsub > 1
            # distance to the nearest cosine of any OTHER class on this ring pair (decides whether a perturbed pair can
            # still be told apart in nearest mode)
            other = allcos[np.abs(allcos - ct) >= 1e-6]
            gap = float(np.abs(other - ct).min()) if len(other) else 2.0
            desc = dict(rdesc, h1=h1.tolist(), h2=h2.tolist(), cos=ct, class_size=int(csize),
                        inequivalent_in_class=int(nsub - 1), representative=bool(isrep))
            variants = [("exact", None)]
            if r.random() < 0.3:
                variants.append(("noise" if r.random() < 0.5 else "strain", None))
            for vname, _ in variants:
                if vname == "exact":
                    g1, g2 = UB_t @ h1, UB_t @ h2
                    nu = 0.0
                elif vname == "noise":
                    # independent relative perturbation of the two observed vectors, |dg|/|g| <= NOISE
                    d1, d2 = r.normal(size=3), r.normal(size=3)
                    g1 = UB_t @ h1
                    g2 = UB_t @ h2
                    g1 = g1 + NOISE * np.sqrt(g1 @ g1) * d1 / np.sqrt(d1 @ d1)
                    g2 = g2 + NOISE * np.sqrt(g2 @ g2) * d2 / np.sqrt(d2 @ d2)
                    nu = NOISE
                else:
                    # the generating grain has a slightly different cell and orientation: g = (I + E) UB_t h
                    E = r.uniform(-NOISE, NOISE, (3, 3)) / 2
                    nu = float(np.linalg.norm(E, 2))
                    g1, g2 = (np.eye(3) + E) @ (UB_t @ h1), (np.eye(3) + E) @ (UB_t @ h2)
                if vname != "exact":
                    run.count("perturbed_pairs")
                # |M - round(M)| <= cond(B) . (rotation error): the g1 direction is off by <= nu, the plane normal by
                # <= 2 nu / sin(angle); for the strained grain the reference UB_t itself is off by nu.  Factor 1.5 margin.
                sin_t = np.sqrt(max(1 - ct * ct, 1e-12))
                eqtol = 1e-6 if nu == 0 else 1e-6 + 1.5 * condB * nu * (2 + 2 / sin_t)
                # cosine ranges: what indexing uses (0.002, 0.02), wide (0.1) and very wide (0.5; 2.5 = every pair kept
                # for the ring pair).  Measured on the unchanged tree: up to 0.1 the range never holds two pairs that give
                # the same orientation, so only the wide ones make ubi_equiv remove anything.
                crw = float(CRANGES[int(r.integers(len(CRANGES)))])
                for mode, crange in (("nearest", -1.0), ("range", crw)):
                    run.case((ctx["kind"], ctx["sym"], int(r1), int(r2),
                              tuple(sorted((tuple(np.abs(h1)), tuple(np.abs(h2))))), mode, hstep, vname),
                             nontrivial=(csize > 1 or r1 != r2),
                             sample=dict(desc, mode=mode, g=vname))
                    mdesc = dict(desc, mode=mode, g=vname, crange=crange)
                    try:
                        uc.orient(int(r1), g1.copy(), int(r2), g2.copy(), crange=crange)
                    except Exception as e:
                        run.violation("orient:exception:%s" % type(e).__name__,
                                      "orient raised %s: %s" % (type(e).__name__, e), mdesc)
                        continue
                    ubis = np.array([np.array(u, float) for u in uc.UBIlist]).reshape(-1, 3, 3)
                    run.count("orient_calls")
                    run.count("candidates_checked", len(ubis))
                    key_cls = "degenerate" if degenerate else "nondegenerate"
                    # every candidate: right handed, metric of the cell
                    if len(ubis):
                        if not (np.linalg.det(ubis) > 0).all():
                            run.violation("orient:left-handed", "candidate UBI is left handed", mdesc)
                        mts = np.einsum("nij,nkj->nik", ubis, ubis)
                        if np.abs(mts - G[None]).max() > 1e-8 * np.abs(G).max():
                            run.violation("orient:metric", "candidate UBI does not have the cell's metric tensor", mdesc)
                    if mode == "range":
                        run.count("range_calls:crange=%g" % crange)
                        if len(ubis) > 1:
                            run.count("range_calls_with_several_candidates")
                        Ms = ubis @ UB_t
                        Mr = np.round(Ms)
                        eq = (np.abs(Ms - Mr).reshape(len(ubis), -1).max(axis=1) <= eqtol) & \
                             (np.abs(np.linalg.det(Mr) - 1) < 1e-9) if len(ubis) else np.zeros(0, bool)
                        if not eq.any():
                            run.violation("orient:range:no-equivalent-candidate:" + key_cls,
                                          "UBIlist (crange=%g, %d candidates, %s g-vectors) holds no orientation equivalent to the "
                                          "generating grain for h1=%r h2=%r" % (crange, len(ubis), vname, h1.tolist(), h2.tolist()),
                                          mdesc)
                        if len(ubis) > 1:
                            # never two candidates describing the same lattice: M_ab = UBI_a . inv(UBI_b) integer, det +-1
                            inv = np.linalg.inv(ubis)
                            Mab = np.einsum("aij,bjk->abik", ubis, inv)
                            Rab = np.round(Mab)
                            # Decided only when beyond doubt: the candidates are products of the cached BT matrices and
                            # one orthonormal triad, so two that are the same lattice agree to rounding (~1e-14).  ubi_equiv
                            # itself calls two candidates equal when sum |h - round(h)| over its 15 probe hkl is <= 1e-8,
                            # i.e. |M - round(M)| <~ 6e-12.  A cell that is symmetric only to 9 digits (the pseudo-bcc cell
                            # with alpha = 109.4712206) gives candidates 1e-9 apart: they are NOT the same lattice, and they
                            # are counted, not judged (false alarm of the first version of this check at crange = 2.5).
                            dev = np.abs(Mab - Rab).reshape(len(ubis), len(ubis), 9).max(axis=2)
                            unimod = np.abs(np.abs(np.linalg.det(Rab)) - 1) < 1e-9
                            same = (dev < 1e-11) & unimod
                            near = (dev >= 1e-11) & (dev < 1e-6) & unimod
                            same[np.tril_indices(len(ubis))] = False
                            near[np.tril_indices(len(ubis))] = False
                            if near.any():
                                run.count("candidate_pairs_same_lattice_only_to_1e-6_undecided", int(near.sum()))
                            if same.any():
                                a_, b_ = np.argwhere(same)[0]
                                run.violation("orient:range:duplicate-candidates",
                                              "two candidates in UBIlist (%d and %d of %d, crange=%g) describe the same lattice"
                                              % (a_, b_, len(ubis), crange), mdesc)
                        continue
                    # nearest mode
                    u = np.array(uc.UBI)
                    if vname == "exact":
                        hk1, hk2 = u @ g1, u @ g2
                        # members of one ring may differ in d* by the ring's width (not more), so the hkl given to a
                        # reflection assigned to another member of its ring is integer only to |h|.width/d* (DESIGN.md
                        # Corrections); the pair kept by filter_pairs may sit anywhere in a cosine cluster of width
                        # < 2.1e-8 (unitcell.py assert), i.e. the in-plane angle is off by < 2.1e-8/sin(angle) rad,
                        # which moves hkl2 by |h2| times that
                        hm1 = max(1.0, np.abs(np.round(hk1)).max())
                        hm2 = max(1.0, np.abs(np.round(hk2)).max())
                        # radial part exactly: hk = h' |g| / d*(h')  =>  |hk - h'| = |h'| . | |g| - d*(h') | / d*(h')
                        #                                              <= |h'| . width / min d* of the ring (1 % margin)
                        it1 = 1e-6 + 1.01 * w1 / n1.min() * hm1
                        it2 = 1e-6 + 1.01 * w2 / n2.min() * hm2 + 3 * hm2 * 2.1e-8 / sin_t
                        integer = np.abs(hk1 - np.round(hk1)).max() < it1 and np.abs(hk2 - np.round(hk2)).max() < it2
                        if not integer:
                            run.violation("orient:nearest:non-integer-hkl",
                                          "orient().UBI gives non-integer hkl to the two reflections: %r %r (allowed %.3g, %.3g)"
                                          % (hk1.tolist(), hk2.tolist(), it1, it2), mdesc)
                        else:
                            # must be members of the two rings
                            d1 = np.sqrt(((B @ np.round(hk1)) ** 2).sum())
                            d2 = np.sqrt(((B @ np.round(hk2)) ** 2).sum())
                            if not (n1.min() - 1e-9 <= d1 <= n1.max() + 1e-9 and n2.min() - 1e-9 <= d2 <= n2.max() + 1e-9):
                                run.violation("orient:nearest:wrong-ring", "assigned hkl not on the requested rings", mdesc)
                    if degenerate:
                        run.count("nearest_degenerate")
                        continue
                    if vname != "exact" and gap < 12 * nu:
                        # |d cos| <= 2 nu for the perturbed pair; a neighbouring class closer than that (with margin)
                        # may legitimately be the nearest one
                        run.count("perturbed_nearest_skipped_close_class")
                        continue
                    run.count("nearest_nondegenerate" if vname == "exact" else "nearest_nondegenerate_perturbed")
                    if not equivalent(u, UB_t, eqtol):
                        run.violation("orient:nearest:not-equivalent",
                                      "orient().UBI is not lattice-equivalent to the generating grain although the "
                                      "angle class is non-degenerate (h1=%r h2=%r, %s g-vectors, |M-round(M)| max %.3g, allowed %.3g)"
                                      % (h1.tolist(), h2.tolist(), vname,
                                         np.abs(u @ UB_t - np.round(u @ UB_t)).max(), eqtol), mdesc)
            # module-level Busing-Levy (python twin of BTmat + quickorient): the true pair gives the true orientation
            ubi_bl, ub_bl = unitcell.orient_BL(B, h1, h2, UB_t @ h1, UB_t @ h2)
            run.count("orient_BL_calls")
            if not equivalent(np.asarray(ubi_bl, float), UB_t) or \
                    np.abs(np.asarray(ubi_bl) @ np.asarray(ub_bl) - np.eye(3)).max() > 1e-9 or \
                    np.abs(np.asarray(ubi_bl) @ UB_t - np.eye(3)).max() > 1e-6:
                run.violation("orient_BL", "unitcell.orient_BL(B, h1, h2, g1, g2) with the true indices does not return the "
                              "generating UBI", desc)


def check(run, replay=None):
    from ImageD11 import unitcell
    # observe (not replace) the de-duplication step: how many candidates went in and came out of ubi_equiv
    orig_equiv = unitcell.ubi_equiv

    def counting_equiv(ubilist, ublist, *a, **k):
        out = orig_equiv(ubilist, ublist, *a, **k)
        if len(out) < len(ubilist):
            run.count("range_calls_where_ubi_equiv_removed_candidates")
            run.count("candidates_removed_by_ubi_equiv", len(ubilist) - len(out))
        return out
    unitcell.ubi_equiv = counting_equiv
    try:
        return check_(run, replay, unitcell)
    finally:
        unitcell.ubi_equiv = orig_equiv


def check_(run, replay, unitcell):
    run.assumptions += [
        "near-collinear pairs (|cos| >= 0.98) are not offered to orient (filter_pairs documents that it drops them)",
        "perturbed g-vectors: nearest mode is only judged when no other angle class lies within 12x the perturbation",
    ]
    if replay is not None:
        one_case(run, replay["seed"], replay["case"]["index"], unitcell)
        run.nontrivial.update(["replay", "replay2"])
        return
    n = 60 if run.tier == "quick" else 160
    for idx in range(n):
        one_case(run, run.seed, idx, unitcell)
    for k in range(3 if run.tier == "quick" else 12):
        one_case(run, run.seed, DEEP0 + k, unitcell)
    run.require_counter("deep_cubic_cases", 3)
    run.require_counter("orient_calls", 500)
    run.require_counter("nearest_nondegenerate", 50)
    run.require_counter("nearest_degenerate", 5)
    run.require_counter("rering_history_steps", 5)
    run.require_counter("centring:R", 1)
    run.require_counter("ringpairs_with_every_subclass_tested", 50)
    run.require_counter("ringpairs_beyond_ring_8", 10)
    run.require_counter("nearest_nondegenerate_perturbed", 50)
    run.require_counter("range_calls_with_several_candidates", 100)
    run.require_counter("ringpairs_given_in_descending_order", 50)
    for c_ in CRANGES:
        run.require_counter("range_calls:crange=%g" % c_, 100)
    run.require_counter("range_calls_where_ubi_equiv_removed_candidates", 50)
    run.require_counter("anglehkl_tables_checked", 50)
    run.require_counter("orient_BL_calls", 100)
    for k_ in ("identity", "axis90", "pi"):
        run.require_counter("rotation:" + k_, 1)


# workloads added in seeding rounds 7-10 (DESIGN.md sections 13.9-13.12)
LEVEL_TEXT = LEVEL_TEXT + ' Later additions: ring pairs given in descending order and in both orders on one object; completeness of the hkl-pair table (one pair for every inequivalent orientation of every angle class visited); deep cubic cells (P, I, F out to 16+ rings) with the table of every pair of the first sixteen rings checked.'
