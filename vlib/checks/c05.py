"""C05 - two indexed reflections determine the orientation (Busing-Levy).

Oracle: lattice-equivalence checker against the generating grain.  For the
true UB_t, a candidate UBI is right iff M = UBI.UB_t is an integer matrix with
det +1 and UBI.UBI^T is the cell metric.  Degenerate angle classes are found by
the harness by enumerating every hkl pair on the two rings.
"""
import numpy as np
from .. import xtal
from ..common import rng

TECHNIQUE = ("runtime oracle monitor: lattice-equivalence check (integer unimodular M = UBI.UB_true, metric "
             "preserved, right-handed) of every orientation returned by unitcell.orient for simulated g-vector pairs; "
             "harness enumeration of degenerate angle classes")
LEVEL_TEXT = ("Exploration: for generated lattices (seven systems + pseudo-symmetric cells, all centrings), random "
              "rotations, every ring pair below a d* limit (same-ring pairs included) and sampled non-collinear hkl pairs "
              "- not only those filter_pairs kept - unitcell.orient is called in nearest-pair and cosine-range mode and every "
              "returned candidate is judged against the generating grain; candidate lists are checked pairwise for duplicates.")
LEVEL_NOTE = ("Trusts harness B matrix and Busing-Levy construction used to classify degenerate angle classes; "
              "near-collinear pairs (|cos|>=0.98) excluded as filter_pairs documents; integer tolerance 1e-6.")

RULE = ("a case = (cell, centring, rotation, ring pair, hkl pair, mode); non-trivial = the angle class holds more "
        "than one hkl pair (symmetry-degenerate) or rings differ; distinct = (cell kind, centring, ring pair, "
        "sorted |hkl| pair, mode)")


def bl_ubi(B, ha, hb, g1, g2):
    """harness Busing-Levy: UBI that gives ha to g1 and puts hb in the g1,g2 plane"""
    def unit(v):
        return v / np.sqrt(v @ v)
    h1c, h2c = B @ ha, B @ hb
    t1c = unit(h1c)
    t3c = unit(np.cross(h1c, h2c))
    t2c = np.cross(t3c, t1c)
    t1g = unit(g1)
    t3g = unit(np.cross(g1, g2))
    t2g = np.cross(t3g, t1g)
    Tc = np.array([t1c, t2c, t3c]).T
    Tg = np.array([t1g, t2g, t3g]).T
    U = Tg @ Tc.T
    return np.linalg.inv(U @ B)


def equivalent(ubi, UB_t, tol=1e-6):
    M = ubi @ UB_t
    Mi = np.round(M)
    return bool(np.abs(M - Mi).max() <= tol and abs(np.linalg.det(Mi) - 1) < 1e-9)


def pseudo_cell(r, j):
    a = float(r.uniform(3, 8))
    e = float(r.choice([1e-3, 1e-2]))
    opts = [
        [a, a * (1 + e), float(r.uniform(3, 8)), 90, 90, 90],          # a ~ b
        [a, float(r.uniform(3, 8)), float(r.uniform(3, 8)), 90, 90, 90 + 0.05],  # gamma ~ 90
        [a, a, a * np.sqrt(8 / 3.0), 90, 90, 120],                     # ideal hcp c/a
        [a, a, a, 60.0, 60.0, 60.0],                                   # rhombohedral = fcc primitive
        [a, a, a, 109.4712206, 109.4712206, 109.4712206],              # bcc primitive
        [a, a, a, 90.0 + 0.02, 90.0 + 0.02, 90.0 + 0.02],              # nearly cubic
    ]
    return [float(x) for x in opts[j % len(opts)]]


def one_case(run, seed, idx, unitcell):
    r = rng(seed, "C05", idx)
    if idx % 4 == 3:
        kind = "pseudo"
        cell = pseudo_cell(r, idx // 4)
        sym = "P"
    else:
        kind = xtal.KINDS[idx % 7]
        cell = xtal.random_cell(r, kind, 3.0, 9.0)
        sym = {"cubic": "PIF", "tetragonal": "PI", "orthorhombic": "PCIFAB", "monoclinic": "PC",
               "hexagonal": "P", "rhombohedral": "P", "triclinic": "P"}[kind]
        sym = sym[int(r.integers(len(sym)))]
    B = xtal.Bmat(cell)
    G = xtal.metric(cell)
    V = np.sqrt(np.linalg.det(G))
    # d* limit giving ~ 60-250 lattice points
    dsmax = float((r.uniform(60, 250) / (4.19 * V)) ** (1 / 3.0))
    uc = unitcell.unitcell(cell, sym)
    R = xtal.random_rotation(r, "haar")
    UB_t = R @ B
    # history on ONE unitcell object: rings are re-made with other tolerances (this changes ring membership and
    # numbering for pseudo-symmetric cells); every orientation request afterwards must still be answered for the
    # rings as they are now
    tols = [1e-4] if idx % 3 else [1e-4, 2e-2, 1e-4, 5e-3]
    for hstep, tol in enumerate(tols):
        try:
            uc.makerings(dsmax, tol)
        except IndexError:
            run.count("cells_skipped_no_reflection")
            return
        if hstep:
            run.count("rering_history_steps")
        run_pairs(run, r, idx, uc, unitcell, cell, sym, kind, B, G, UB_t, tol, hstep)


def run_pairs(run, r, idx, uc, unitcell, cell, sym, kind, B, G, UB_t, tol, hstep):
    nr = len(uc.ringds)
    if nr < 1:
        return
    maxpairs = 15 if run.tier == "quick" else 25
    maxhk = 30 if run.tier == "quick" else 60
    if hstep:
        maxpairs, maxhk = maxpairs // 2, maxhk // 3
    rp = [(i, j) for i in range(min(nr, 8)) for j in range(i, min(nr, 8))]
    if len(rp) > maxpairs:
        sel = r.choice(len(rp), maxpairs, replace=False)
        rp = [rp[k] for k in sorted(sel)]
    for (r1, r2) in rp:
        h1s = np.array(uc.ringhkls[uc.ringds[r1]], float)
        h2s = np.array(uc.ringhkls[uc.ringds[r2]], float)
        if len(h1s) * len(h2s) > 3000:
            run.count("ringpairs_skipped_too_large")
            continue
        g1s = h1s @ B.T
        g2s = h2s @ B.T
        n1 = np.sqrt((g1s * g1s).sum(axis=1))
        n2 = np.sqrt((g2s * g2s).sum(axis=1))
        cosm = (g1s @ g2s.T) / np.outer(n1, n2)
        cand = np.argwhere(np.abs(cosm) < 0.98 - 1e-6)
        if len(cand) == 0:
            continue
        if len(cand) > maxhk:
            cand = cand[r.choice(len(cand), maxhk, replace=False)]
        for (i, j) in cand:
            h1, h2 = h1s[i], h2s[j]
            g1, g2 = UB_t @ h1, UB_t @ h2
            ct = cosm[i, j]
            # harness: all pairs within a cos window and whether they are equivalent to the true one
            win = np.argwhere(np.abs(cosm - ct) < 1e-6)
            ndeg = 0
            for (a, b) in win:
                alt = bl_ubi(B, h1s[a], h2s[b], g1, g2)
                if not equivalent(alt, UB_t):
                    ndeg += 1
            degenerate = ndeg > 0
            desc = dict(index=idx, cell=cell, sym=sym, kind=kind, ring1=int(r1), ring2=int(r2), ring_tol=tol, history_step=hstep,
                        h1=h1.tolist(), h2=h2.tolist(), cos=float(ct), class_size=int(len(win)),
                        inequivalent_in_class=int(ndeg))
            for mode, crange in (("nearest", -1.0), ("range", 0.002)):
                run.case((kind, sym, int(r1), int(r2), tuple(sorted((tuple(np.abs(h1)), tuple(np.abs(h2))))), mode, hstep),
                         nontrivial=(len(win) > 1 or r1 != r2),
                         sample=dict(desc, mode=mode))
                try:
                    uc.orient(int(r1), g1.copy(), int(r2), g2.copy(), crange=crange)
                except Exception as e:
                    run.violation("orient:exception:%s" % type(e).__name__,
                                  "orient raised %s: %s" % (type(e).__name__, e), dict(desc, mode=mode))
                    continue
                ubis = [np.array(u) for u in uc.UBIlist]
                run.count("orient_calls")
                run.count("candidates_checked", len(ubis))
                key_cls = "degenerate" if degenerate else "nondegenerate"
                # every candidate: right handed, metric of the cell
                for u in ubis:
                    if not np.linalg.det(u) > 0:
                        run.violation("orient:left-handed", "candidate UBI is left handed", dict(desc, mode=mode))
                    if np.abs(u @ u.T - G).max() > 1e-8 * np.abs(G).max():
                        run.violation("orient:metric", "candidate UBI does not have the cell's metric tensor",
                                      dict(desc, mode=mode))
                eq = [equivalent(u, UB_t) for u in ubis]
                if mode == "range":
                    if not any(eq):
                        run.violation("orient:range:no-equivalent-candidate:" + key_cls,
                                      "UBIlist (crange=%g, %d candidates) holds no orientation equivalent to the "
                                      "generating grain for h1=%r h2=%r" % (crange, len(ubis), h1.tolist(), h2.tolist()),
                                      dict(desc, mode=mode))
                    for a in range(len(ubis)):
                        for b in range(a + 1, len(ubis)):
                            M = ubis[a] @ np.linalg.inv(ubis[b])
                            if np.abs(M - np.round(M)).max() < 1e-6 and abs(abs(np.linalg.det(np.round(M))) - 1) < 1e-9:
                                run.violation("orient:range:duplicate-candidates",
                                              "two candidates in UBIlist describe the same lattice",
                                              dict(desc, mode=mode))
                else:
                    u = np.array(uc.UBI)
                    hk1, hk2 = u @ g1, u @ g2
                    # members of one ring may differ in d* by up to the ring tolerance, so the
                    # hkl given to a reflection assigned to another member of its ring is integer
                    # only to |h|.tol/d* (DESIGN.md Corrections)
                    it1 = 1e-6 + 2 * tol / n1[i] * max(1.0, np.abs(np.round(hk1)).max())
                    it2 = 1e-6 + 2 * tol / n2[j] * max(1.0, np.abs(np.round(hk2)).max())
                    integer = np.abs(hk1 - np.round(hk1)).max() < it1 and np.abs(hk2 - np.round(hk2)).max() < it2
                    if not integer:
                        run.violation("orient:nearest:non-integer-hkl",
                                      "orient().UBI gives non-integer hkl to the two reflections: %r %r"
                                      % (hk1.tolist(), hk2.tolist()), dict(desc, mode=mode))
                    else:
                        # must be members of the two rings
                        d1 = np.sqrt(((B @ np.round(hk1)) ** 2).sum())
                        d2 = np.sqrt(((B @ np.round(hk2)) ** 2).sum())
                        if abs(d1 - n1[i]) > 2 * tol or abs(d2 - n2[j]) > 2 * tol:
                            run.violation("orient:nearest:wrong-ring", "assigned hkl not on the requested rings",
                                          dict(desc, mode=mode))
                    if not degenerate:
                        run.count("nearest_nondegenerate")
                        if not equivalent(u, UB_t):
                            run.violation("orient:nearest:not-equivalent",
                                          "orient().UBI is not lattice-equivalent to the generating grain although the "
                                          "angle class is non-degenerate (h1=%r h2=%r)" % (h1.tolist(), h2.tolist()),
                                          dict(desc, mode=mode))
                        # then every reflection of the grain gets integer hkl
                    else:
                        run.count("nearest_degenerate")


def check(run, replay=None):
    from ImageD11 import unitcell
    if replay is not None:
        one_case(run, replay["seed"], replay["case"]["index"], unitcell)
        run.nontrivial.update(["replay", "replay2"])
        return
    n = 40 if run.tier == "quick" else 160
    for idx in range(n):
        one_case(run, run.seed, idx, unitcell)
    run.require_counter("orient_calls", 500)
    run.require_counter("nearest_nondegenerate", 50)
    run.require_counter("nearest_degenerate", 5)
    run.require_counter("rering_history_steps", 5)
