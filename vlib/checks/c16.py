"""C16 - symmetry groups are proper point groups; orientation reduction is canonical.

Group axioms are checked exhaustively over all elements and products of the
ten named groups (finite).  Orbit invariance / membership / idempotence of
find_uniq_u and find_uniq_hkls are checked on random conforming UBIs with every
group element applied beforehand.
"""
import itertools
import numpy as np
from .. import xtal
from ..common import rng

TECHNIQUE = ("runtime law monitor: exhaustive group axioms (closure, identity, inverses, integer det+1 operators, order, metric "
             "preservation for conforming cells, cache-order independence) on sym_u named groups; orbit-invariance, orbit-membership "
             "and idempotence oracle for find_uniq_u / find_uniq_hkls on random conforming UBIs x every group element")
LEVEL_TEXT = ("The group-axiom part is exhaustive over the elements and all pairwise products of the ten named groups (sum of "
              "orders 67; 1,438 products) and is re-run after clearing and re-populating the generator cache in reverse order. The "
              "reduction part is exploration: random conforming cells and orientations (200/group quick, 20,000 thorough), all group "
              "elements applied beforehand; trace ties (gap < 1e-9) are skipped and counted.")
LEVEL_NOTE = "Trusts the harness B matrix and the table of proper point group orders; conforming cell classes are listed in the module."

RULE = ("group part: one case per (group, element pair); reduction part: a case = (group, cell, rotation); non-trivial = group of "
        "order >= 2 and a rotation without trace ties; distinct = (group, rounded cell, rounded rotation)")

ORDERS = {"cubic": 24, "hexagonal": 12, "trigonal": 6, "rhombohedralP": 6, "tetragonal": 8, "orthorhombic": 4,
          "monoclinic_a": 2, "monoclinic_b": 2, "monoclinic_c": 2, "triclinic": 1}


def conforming_cell(r, name):
    a, b, c = r.uniform(3, 12, 3)
    al, be, ga = 90.0, 90.0, 90.0
    if name == "cubic":
        b = c = a
    elif name in ("hexagonal", "trigonal"):
        b = a
        ga = 120.0
    elif name == "rhombohedralP":
        b = c = a
        al = be = ga = float(r.uniform(50, 110))
    elif name == "tetragonal":
        b = a
    elif name == "orthorhombic":
        pass
    elif name == "monoclinic_a":
        al = float(r.uniform(60, 120))
    elif name == "monoclinic_b":
        be = float(r.uniform(60, 120))
    elif name == "monoclinic_c":
        ga = float(r.uniform(60, 120))
    elif name == "triclinic":
        while True:
            al, be, ga = r.uniform(60, 120, 3)
            if xtal.volume_ok([a, b, c, al, be, ga]):
                break
    return [float(x) for x in (a, b, c, al, be, ga)]


def member(ops, m, tol=1e-9):
    return any(np.abs(o - m).max() < tol for o in ops)


def group_axioms(run, sym_u, name, tag):
    ops = [np.array(o, float) for o in sym_u.getgroup(name)().group]
    n = len(ops)
    desc = dict(group=name, pass_=tag)

    def V(key, what):
        run.violation(key, what, desc)
    if n != ORDERS[name]:
        V("group:order:" + name, "group %s has %d operators, proper point group order is %d" % (name, n, ORDERS[name]))
    if not member(ops, np.eye(3)):
        V("group:identity:" + name, "identity missing")
    for a in range(n):
        for b in range(a + 1, n):
            if np.abs(ops[a] - ops[b]).max() < 1e-9:
                V("group:duplicate:" + name, "operator listed twice")
    for o in ops:
        run.count("group_elements_checked")
        if np.abs(o - np.round(o)).max() > 1e-12:
            V("group:non-integer:" + name, "operator with non-integer entries %r" % o.tolist())
        if abs(np.linalg.det(o) - 1) > 1e-9:
            V("group:det:" + name, "operator with determinant %r" % np.linalg.det(o))
        if not member(ops, np.linalg.inv(o)):
            V("group:inverse:" + name, "inverse of %r not in the group" % o.tolist())
    for a, b in itertools.product(range(n), repeat=2):
        run.count("group_products_checked")
        run.case(("group", name, a, b, tag), nontrivial=(a != 0 and b != 0))
        if not member(ops, ops[a] @ ops[b]):
            V("group:closure:" + name, "product of operators %d and %d is not in the group" % (a, b))
            break
    return ops


def metric_preserved(run, name, ops, r, ncell):
    for k in range(ncell):
        cell = conforming_cell(r, name)
        ubi0 = np.linalg.inv(xtal.Bmat(cell))
        G = ubi0 @ ubi0.T
        for o in ops:
            run.count("metric_checks")
            G2 = (o @ ubi0) @ (o @ ubi0).T
            if np.abs(G2 - G).max() > 1e-9 * np.abs(G).max():
                c2 = xtal.cell_from_metric(G2)
                run.violation("group:metric:" + name,
                              "operator %r of %s does not preserve the metric of the conforming cell %r: maps it to %r"
                              % (o.tolist(), name, [round(x, 4) for x in cell], [round(float(x), 4) for x in c2]),
                              dict(group=name, cell=cell, op=o.tolist()))
                return False
    return True


def reduction(run, sym_u, name, ops, seed, idx):
    r = rng(seed, "C16", name, idx)
    cell = conforming_cell(r, name)
    U = xtal.random_rotation(r, ["haar", "haar", "near-identity", "pi"][idx % 4])
    ubi = np.linalg.inv(U @ xtal.Bmat(cell))
    grp = sym_u.getgroup(name)()
    desc = dict(group=name, index=idx, cell=cell, ubi=ubi.tolist())
    traces = sorted(np.trace(o @ ubi) for o in ops)
    tie = len(traces) > 1 and (traces[-1] - traces[-2]) < 1e-9 * max(1.0, abs(traces[-1]))
    run.case((name, tuple(np.round(cell, 3)), tuple(np.round(U.ravel(), 4))), nontrivial=(len(ops) >= 2 and not tie),
             sample=dict(group=name, index=idx, cell=cell) if idx < 1 else None)
    if tie:
        run.count("reduction_skipped_trace_tie")
        return

    def V(key, what):
        run.violation(key, what, desc)
    base = sym_u.find_uniq_u(ubi, grp)
    run.count("reductions_checked")
    orbit = [o @ ubi for o in ops]
    if not member(orbit, base, 1e-9 * np.abs(ubi).max()):
        V("find_uniq_u:not-in-orbit:" + name, "reduced matrix is not a symmetry-equivalent of the input")
    if np.abs(sym_u.find_uniq_u(base, grp) - base).max() > 1e-9 * np.abs(ubi).max():
        V("find_uniq_u:not-idempotent:" + name, "reducing the reduced matrix changes it")
    for o in ops:
        red = sym_u.find_uniq_u(o @ ubi, grp)
        run.count("orbit_members_checked")
        if np.abs(red - base).max() > 1e-9 * np.abs(ubi).max():
            V("find_uniq_u:orbit-dependent:" + name,
              "reduction of g.UBI differs from reduction of UBI for g=%r (max diff %.3g)" % (o.tolist(), np.abs(red - base).max()))
            break
    # same cell, same g-vectors indexed
    G = ubi @ ubi.T
    if np.abs(base @ base.T - G).max() > 1e-9 * np.abs(G).max():
        V("find_uniq_u:cell-changed:" + name, "reduced matrix has different cell parameters")
    hkl = r.integers(-9, 10, (3, 40)).astype(float)
    gv = np.linalg.inv(ubi) @ hkl
    h2 = base @ gv
    if np.abs(h2 - np.round(h2)).max() > 1e-8:
        V("find_uniq_u:indexing-changed:" + name, "reduced matrix no longer gives integer hkl to the grain's g-vectors")
    # hkl reduction
    hk = r.integers(-40, 41, (3, 60)).astype(float)
    b = sym_u.find_uniq_hkls(hk, grp)
    run.count("hkl_reductions_checked")
    if hk.shape != b.shape:
        V("find_uniq_hkls:shape:" + name, "shape changed")
        return
    for col in range(hk.shape[1]):
        if not member([o @ hk[:, col] for o in ops], b[:, col]):
            V("find_uniq_hkls:not-in-orbit:" + name, "reduced hkl %r not equivalent to %r" % (b[:, col].tolist(), hk[:, col].tolist()))
            break
    if not np.array_equal(sym_u.find_uniq_hkls(b, grp), b):
        V("find_uniq_hkls:not-idempotent:" + name, "reducing reduced hkls changes them")
    for o in ops:
        if not np.array_equal(sym_u.find_uniq_hkls(o @ hk, grp), b):
            V("find_uniq_hkls:orbit-dependent:" + name, "reduction of g.hkl differs from reduction of hkl")
            break


def check(run, replay=None):
    from ImageD11 import sym_u
    if not hasattr(sym_u, "getgroup"):
        run.inconc("sym_u.getgroup missing")
        return
    names = list(ORDERS)
    r = rng(run.seed, "C16", "cells")
    allops = {}
    for name in names:
        allops[name] = group_axioms(run, sym_u, name, "first")
    # cache independence: clear and rebuild in reverse order
    sym_u.symcache.clear()
    for name in names[::-1]:
        ops2 = group_axioms(run, sym_u, name, "after-cache-clear-reverse")
        if len(ops2) != len(allops[name]) or not all(member(allops[name], o) for o in ops2):
            run.violation("group:cache-dependent:" + name, "group differs after clearing the generator cache", dict(group=name))
    ok = {}
    for name in names:
        ok[name] = metric_preserved(run, name, allops[name], r, 20 if run.tier == "quick" else 200)
    run.exhaustive = None
    run.extra["group_axioms_exhaustive"] = True
    run.extra["group_orders"] = {n: len(allops[n]) for n in names}
    nred = 200 if run.tier == "quick" else 20000
    if replay is not None:
        cs = replay["case"]
        if "index" in cs:
            reduction(run, sym_u, cs["group"], allops[cs["group"]], replay["seed"], cs["index"])
        return
    for name in names:
        for idx in range(nred):
            reduction(run, sym_u, name, allops[name], run.seed, idx)
    run.require_counter("group_products_checked", 1000)
    run.require_counter("orbit_members_checked", 1000)
