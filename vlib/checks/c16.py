"""C16 - symmetry groups are proper point groups; orientation reduction is canonical.

Group axioms are checked exhaustively over all elements and products of the
ten named groups (finite).  Orbit invariance / membership / idempotence of
find_uniq_u and find_uniq_hkls are checked on random conforming UBIs with every
group element applied beforehand.
"""
import contextlib, io, itertools, os
import numpy as np
from .. import xtal
from ..common import rng

TECHNIQUE = ("runtime law monitor: exhaustive group axioms (closure, identity, inverses, integer det+1 operators, order, metric "
             "preservation for conforming cells, cache-order independence, operators unchanged by use) on sym_u named groups; "
             "orbit-invariance, orbit-membership and idempotence oracle for find_uniq_u / find_uniq_hkls on random conforming and "
             "strained UBIs x every group element (default and user-supplied ranking functions, result must be a fresh float array); "
             "orbit membership only at constructed trace ties; the consumers refinegrains.makeuniq and "
             "grid_index_parallel.uniq_grain_list against an orbit / misorientation model built from the harness's own operator copies")
LEVEL_TEXT = ("The group-axiom part is exhaustive over the elements and all pairwise products of the ten named groups (sum of "
              "orders 67; 1,438 products) and is re-run after clearing and re-populating the generator cache in reverse order. The "
              "reduction part is exploration: random conforming cells and orientations (200/group quick, 20,000 thorough), all group "
              "elements applied beforehand; trace ties (gap < 1e-9) are skipped and counted there. Added classes (60/group quick, "
              "3,000 thorough): UBIs strained by 1e-4..1e-2, orientations driven onto a trace tie by bisection (orbit membership, cell "
              "and indexing only), hkl lists with |h| <= 249 in float and integer dtype and shapes (3,), (3,1), (3,0), custom ranking "
              "functions, complete (h,k) slices |h|,|k| <= 100 (quick) / 249 (thorough) at five l; makeuniq on a refinegrains object with symmetry-equivalent duplicates; uniq_grain_list with equivalent, "
              "rotated and displaced grains.")
LEVEL_NOTE = ("Trusts the harness B matrix and the table of proper point group orders; conforming cell classes are listed in the module. "
              "At an exact trace tie the maximum is not unique and find_uniq_u keeps whichever tied member it meets first, so 'same "
              "matrix for every orbit member' is not decided there (only membership). find_uniq_hkls is documented for |h| < 1000; the pinned "
              "ranking (h*1000+k)*1000+l was one-to-one only below 500 (ties for hexagonal/trigonal at |l| = 500), repaired in "
              "/repo, and the whole documented range is part of the workload. "
              "point_by_point.idxpoint is driven on simulated on-axis voxels of four lattice systems (one and two grains).")

RULE = ("group part: one case per (group, element pair); reduction part: a case = (group, cell, rotation); non-trivial = group of "
        "order >= 2 and a rotation without trace ties; distinct = (group, rounded cell, rounded rotation)")

ORDERS = {"cubic": 24, "hexagonal": 12, "trigonal": 6, "rhombohedralP": 6, "tetragonal": 8, "orthorhombic": 4,
          "monoclinic_a": 2, "monoclinic_b": 2, "monoclinic_c": 2, "triclinic": 1}


def conforming_cell(r, name):
    a, b, c = r.uniform(3, 12, 3)
    al, be, ga = 90.0, 90.0, 90.0
    if name == "cubic":
        b = c = a
    elif name in ("hexagonal", "trigonal"):
        b = a
        ga = 120.0
    elif name == "rhombohedralP":
        b = c = a
        al = be = ga = float(r.uniform(50, 110))
    elif name == "tetragonal":
        b = a
    elif name == "orthorhombic":
        pass
    elif name == "monoclinic_a":
        al = float(r.uniform(60, 120))
    elif name == "monoclinic_b":
        be = float(r.uniform(60, 120))
    elif name == "monoclinic_c":
        ga = float(r.uniform(60, 120))
    elif name == "triclinic":
        while True:
            al, be, ga = r.uniform(60, 120, 3)
            if xtal.volume_ok([a, b, c, al, be, ga]):
                break
    return [float(x) for x in (a, b, c, al, be, ga)]


def member(ops, m, tol=1e-9):
    return any(np.abs(o - m).max() < tol for o in ops)


def group_axioms(run, sym_u, name, tag):
    ops = [np.array(o, float) for o in sym_u.getgroup(name)().group]
    n = len(ops)
    desc = dict(group=name, pass_=tag)

    def V(key, what):
        run.violation(key, what, desc)
    if n != ORDERS[name]:
        V("group:order:" + name, "group %s has %d operators, proper point group order is %d" % (name, n, ORDERS[name]))
    if not member(ops, np.eye(3)):
        V("group:identity:" + name, "identity missing")
    for a in range(n):
        for b in range(a + 1, n):
            if np.abs(ops[a] - ops[b]).max() < 1e-9:
                V("group:duplicate:" + name, "operator listed twice")
    for o in ops:
        run.count("group_elements_checked")
        if np.abs(o - np.round(o)).max() > 1e-12:
            V("group:non-integer:" + name, "operator with non-integer entries %r" % o.tolist())
        if abs(np.linalg.det(o) - 1) > 1e-9:
            V("group:det:" + name, "operator with determinant %r" % np.linalg.det(o))
        if not member(ops, np.linalg.inv(o)):
            V("group:inverse:" + name, "inverse of %r not in the group" % o.tolist())
    for a, b in itertools.product(range(n), repeat=2):
        run.count("group_products_checked")
        run.case(("group", name, a, b, tag), nontrivial=(a != 0 and b != 0))
        if not member(ops, ops[a] @ ops[b]):
            V("group:closure:" + name, "product of operators %d and %d is not in the group" % (a, b))
            break
    return ops


def metric_preserved(run, name, ops, r, ncell):
    for k in range(ncell):
        cell = conforming_cell(r, name)
        ubi0 = np.linalg.inv(xtal.Bmat(cell))
        G = ubi0 @ ubi0.T
        for o in ops:
            run.count("metric_checks")
            G2 = (o @ ubi0) @ (o @ ubi0).T
            if np.abs(G2 - G).max() > 1e-9 * np.abs(G).max():
                c2 = xtal.cell_from_metric(G2)
                run.violation("group:metric:" + name,
                              "operator %r of %s does not preserve the metric of the conforming cell %r: maps it to %r"
                              % (o.tolist(), name, [round(x, 4) for x in cell], [round(float(x), 4) for x in c2]),
                              dict(group=name, cell=cell, op=o.tolist()))
                return False
    return True


def reduction(run, sym_u, name, ops, seed, idx):
    r = rng(seed, "C16", name, idx)
    cell = conforming_cell(r, name)
    U = xtal.random_rotation(r, ["haar", "haar", "near-identity", "pi"][idx % 4])
    ubi = np.linalg.inv(U @ xtal.Bmat(cell))
    grp = sym_u.getgroup(name)()
    desc = dict(group=name, index=idx, cell=cell, ubi=ubi.tolist())
    traces = sorted(np.trace(o @ ubi) for o in ops)
    tie = len(traces) > 1 and (traces[-1] - traces[-2]) < 1e-9 * max(1.0, abs(traces[-1]))
    run.case((name, tuple(np.round(cell, 3)), tuple(np.round(U.ravel(), 4))), nontrivial=(len(ops) >= 2 and not tie),
             sample=dict(group=name, index=idx, cell=cell) if idx < 1 else None)
    if tie:
        run.count("reduction_skipped_trace_tie")
        return

    def V(key, what):
        run.violation(key, what, desc)
    base = sym_u.find_uniq_u(ubi, grp)
    run.count("reductions_checked")
    orbit = [o @ ubi for o in ops]
    if not member(orbit, base, 1e-9 * np.abs(ubi).max()):
        V("find_uniq_u:not-in-orbit:" + name, "reduced matrix is not a symmetry-equivalent of the input")
    if np.abs(sym_u.find_uniq_u(base, grp) - base).max() > 1e-9 * np.abs(ubi).max():
        V("find_uniq_u:not-idempotent:" + name, "reducing the reduced matrix changes it")
    for o in ops:
        red = sym_u.find_uniq_u(o @ ubi, grp)
        run.count("orbit_members_checked")
        if np.abs(red - base).max() > 1e-9 * np.abs(ubi).max():
            V("find_uniq_u:orbit-dependent:" + name,
              "reduction of g.UBI differs from reduction of UBI for g=%r (max diff %.3g)" % (o.tolist(), np.abs(red - base).max()))
            break
    # same cell, same g-vectors indexed
    G = ubi @ ubi.T
    if np.abs(base @ base.T - G).max() > 1e-9 * np.abs(G).max():
        V("find_uniq_u:cell-changed:" + name, "reduced matrix has different cell parameters")
    hkl = r.integers(-9, 10, (3, 40)).astype(float)
    gv = np.linalg.inv(ubi) @ hkl
    h2 = base @ gv
    if np.abs(h2 - np.round(h2)).max() > 1e-8:
        V("find_uniq_u:indexing-changed:" + name, "reduced matrix no longer gives integer hkl to the grain's g-vectors")
    # hkl reduction
    hk = r.integers(-40, 41, (3, 60)).astype(float)
    b = sym_u.find_uniq_hkls(hk, grp)
    run.count("hkl_reductions_checked")
    if hk.shape != b.shape:
        V("find_uniq_hkls:shape:" + name, "shape changed")
        return
    for col in range(hk.shape[1]):
        if not member([o @ hk[:, col] for o in ops], b[:, col]):
            V("find_uniq_hkls:not-in-orbit:" + name, "reduced hkl %r not equivalent to %r" % (b[:, col].tolist(), hk[:, col].tolist()))
            break
    if not np.array_equal(sym_u.find_uniq_hkls(b, grp), b):
        V("find_uniq_hkls:not-idempotent:" + name, "reducing reduced hkls changes them")
    for o in ops:
        if not np.array_equal(sym_u.find_uniq_hkls(o @ hk, grp), b):
            V("find_uniq_hkls:orbit-dependent:" + name, "reduction of g.hkl differs from reduction of hkl")
            break


def _angle(R):
    return float(np.degrees(np.arccos(np.clip((np.trace(R) - 1) / 2, -1, 1))))


def _misorientation(ops, ubi1, ubi2):
    """smallest rotation angle (degrees) between two grains of one cell modulo the group: U2 U1^T = inv(ubi2) (o ubi1)"""
    i2 = np.linalg.inv(ubi2)
    return min(_angle(i2 @ (o @ ubi1)) for o in ops)


def reduction_extra(run, sym_u, name, ops, seed, idx):
    """strained cells, constructed ties, argument variants, aliasing, hkl domain"""
    r = rng(seed, "C16", "extra", name, idx)
    cell = conforming_cell(r, name)
    U = xtal.random_rotation(r, "haar")
    ubi0 = np.linalg.inv(U @ xtal.Bmat(cell))
    grp = sym_u.getgroup(name)()
    scale = np.abs(ubi0).max()
    desc = dict(group=name, index=idx, kind="extra", cell=cell)
    run.case(("extra", name, idx), nontrivial=len(ops) >= 2, sample=desc if idx < 1 else None)

    def V(key, what):
        run.violation(key, what, desc)

    def gap(m):
        t = sorted(np.trace(o @ m) for o in ops)
        return (t[-1] - t[-2]) if len(t) > 1 else 1.0

    # ---- (a) strained UBI: membership, idempotence and orbit invariance do not need a conforming cell
    mag = 10 ** r.uniform(-4, -2)
    ubi = ubi0 @ (np.eye(3) + mag * r.uniform(-1, 1, (3, 3)))
    if gap(ubi) > 1e-6 * scale:
        keep = ubi.copy()
        base = sym_u.find_uniq_u(ubi, grp)
        run.count("strained_reductions_checked")
        if not np.array_equal(ubi, keep):
            V("find_uniq_u:input-modified:" + name, "find_uniq_u changed its input array")
        if not isinstance(base, np.ndarray) or base.dtype != np.float64 or base.shape != (3, 3):
            V("find_uniq_u:result-type:" + name, "result is not a 3x3 float64 array (%r)" % (getattr(base, "dtype", type(base)),))
        elif np.shares_memory(base, ubi) or any(np.shares_memory(base, o) for o in grp.group):
            V("find_uniq_u:result-aliased:" + name, "result shares memory with the input or with a group operator")
        orbit = [o @ ubi for o in ops]
        if not member(orbit, base, 1e-9 * scale):
            V("find_uniq_u:not-in-orbit:" + name, "strained UBI: reduced matrix is not a symmetry-equivalent of the input")
        if np.abs(sym_u.find_uniq_u(base, grp) - base).max() > 1e-9 * scale:
            V("find_uniq_u:not-idempotent:" + name, "strained UBI: reducing the reduced matrix changes it")
        for o in ops:
            if np.abs(sym_u.find_uniq_u(o @ ubi, grp) - base).max() > 1e-9 * scale:
                V("find_uniq_u:orbit-dependent:" + name, "strained UBI: reduction of g.UBI differs from reduction of UBI")
                break
        hkl = r.integers(-9, 10, (3, 40)).astype(float)
        h2 = base @ (np.linalg.inv(ubi) @ hkl)
        if np.abs(h2 - np.round(h2)).max() > 1e-8:
            V("find_uniq_u:indexing-changed:" + name, "strained UBI: reduced matrix no longer gives integer hkl to the grain's g-vectors")
        # debug=1 only prints; a user ranking function: the result is the orbit member ranked highest by it, for every member
        with contextlib.redirect_stdout(io.StringIO()):
            bd = sym_u.find_uniq_u(ubi, grp, debug=1)
        if not np.array_equal(bd, base):
            V("find_uniq_u:debug-changes-result:" + name, "debug=1 changes the result")
        w = r.uniform(-1, 1, (3, 3))
        f = lambda m: float((w * m).sum())
        vals = sorted(f(o @ ubi) for o in ops)
        if len(vals) == 1 or vals[-1] - vals[-2] > 1e-6 * scale:
            bf = sym_u.find_uniq_u(ubi, grp, func=f)
            run.count("custom_func_reductions_checked")
            if not member(orbit, bf, 1e-9 * scale):
                V("find_uniq_u:func:not-in-orbit:" + name, "func=<linear form>: result not in the orbit")
            for o in ops:
                if np.abs(sym_u.find_uniq_u(o @ ubi, grp, func=f) - bf).max() > 1e-9 * scale:
                    V("find_uniq_u:func:orbit-dependent:" + name, "func=<linear form>: reduction depends on the orbit member given")
                    break
    else:
        run.count("strained_skipped_trace_tie")
    # ---- (b) an orientation ON a trace tie: rotate the conforming UBI along a path until the best operator changes and
    # bisect onto the switch.  The maximum is then not unique: only membership / cell / indexing are promised.
    if len(ops) >= 2:
        ax = r.normal(size=3)
        ang = float(r.uniform(1.0, 3.0))

        def at(t):
            return ubi0 @ xtal.rot_axis_angle(ax, t * ang)

        def best(m):
            return int(np.argmax([np.trace(o @ m) for o in ops]))
        lo, hi = 0.0, 1.0
        if best(at(lo)) != best(at(hi)):
            for _ in range(80):
                mid = 0.5 * (lo + hi)
                if best(at(mid)) == best(at(lo)):
                    lo = mid
                else:
                    hi = mid
            for tie in (at(lo), at(hi)):
                if gap(tie) > 1e-9 * scale:
                    continue
                run.count("constructed_tie_reductions_checked")
                orbit = [o @ tie for o in ops]
                G = tie @ tie.T
                for o in ops[: 6]:
                    red = sym_u.find_uniq_u(o @ tie, grp)
                    if not member(orbit, red, 1e-9 * scale):
                        V("find_uniq_u:tie:not-in-orbit:" + name, "orientation on a trace tie: result is not in the orbit")
                        break
                    if np.abs(red @ red.T - G).max() > 1e-9 * np.abs(G).max():
                        V("find_uniq_u:tie:cell-changed:" + name, "orientation on a trace tie: result has a different cell")
                        break
    # ---- (c) hkl lists: larger indices (every orbit index stays below 500: x-y of 249 is 498), integer dtype, odd shapes
    H = int(r.choice([3, 40, 249]))
    hk = r.integers(-H, H + 1, (3, 50))
    hk[:, 0] = 0
    hk[:, 1] = (H, -H, H)
    hk[:, 2] = (-H, H, 0)
    # orbit members that differ in one small index only ((h,h,l) ~ (h,h,-l) under a two-fold along [110], (h,k,k) ...):
    # the ordering key has to resolve the last index next to a large first one, in whatever dtype the list comes
    for c0, (a, b_, c) in enumerate([(H, H, 1), (H, H, -1), (H, 2, 2), (-H, 1, -1), (H // 2 + 1, H // 2 + 1, -2), (1, H, H)]):
        hk[:, 3 + c0] = (a, b_, c)
    for tag, arr in (("float", hk.astype(float)), ("int", hk.astype(np.int64)), ("int32", hk.astype(np.int32)),
                     ("float32", hk.astype(np.float32)), ("int16", hk.astype(np.int16))):
        keep = arr.copy()
        b = sym_u.find_uniq_hkls(arr, grp)
        run.count("hkl_lists_checked_" + tag)
        if not np.array_equal(arr, keep):
            V("find_uniq_hkls:input-modified:" + name, "find_uniq_hkls changed its input (%s)" % tag)
        if b.shape != arr.shape or np.shares_memory(b, arr):
            V("find_uniq_hkls:shape-or-alias:" + name, "result shape differs or shares memory with the input (%s)" % tag)
            continue
        bad = None
        for col in range(arr.shape[1]):
            if not member([o @ keep[:, col].astype(float) for o in ops], np.asarray(b[:, col], float)):
                bad = col
                break
        if bad is not None:
            V("find_uniq_hkls:not-in-orbit:" + name, "reduced hkl %r not equivalent to %r (%s, |h|<=%d)"
              % (b[:, bad].tolist(), keep[:, bad].tolist(), tag, H))
        if not np.array_equal(sym_u.find_uniq_hkls(b, grp), b):
            V("find_uniq_hkls:not-idempotent:" + name, "reducing reduced hkls changes them (%s)" % tag)
        for o in ops:
            if not np.array_equal(np.asarray(sym_u.find_uniq_hkls((o @ keep).astype(arr.dtype), grp), float), np.asarray(b, float)):
                V("find_uniq_hkls:orbit-dependent:" + name, "reduction of g.hkl differs from reduction of hkl (%s, |h|<=%d)" % (tag, H))
                break
    one = hk[:, 3].astype(float)
    for tag, arr in (("(3,)", one), ("(3,1)", one.reshape(3, 1)), ("(3,0)", np.zeros((3, 0)))):
        try:
            b = sym_u.find_uniq_hkls(arr, grp)
        except Exception as e:
            V("find_uniq_hkls:shape:%s:%s" % (tag, name), "find_uniq_hkls on an array of shape %s raised %s: %s" % (tag, type(e).__name__, e))
            continue
        run.count("hkl_shapes_checked")
        ref = np.asarray(sym_u.find_uniq_hkls(hk.astype(float), grp))[:, 3]
        if b.shape != arr.shape or (arr.size and not np.array_equal(np.asarray(b, float).ravel(), ref)):
            V("find_uniq_hkls:shape:%s:%s" % (tag, name), "find_uniq_hkls on shape %s differs from the same hkl inside a list" % tag)
    # lists of two, three and four reflections in the documented (3,n) layout: a (3,3) array is three hkls in columns
    full = np.asarray(sym_u.find_uniq_hkls(hk.astype(float), grp))
    for ncol in (2, 3, 4):
        sel = r.choice(hk.shape[1], ncol, replace=False)
        for tag, arr in (("float", hk[:, sel].astype(float)), ("int", np.ascontiguousarray(hk[:, sel]))):
            try:
                b = np.asarray(sym_u.find_uniq_hkls(arr, grp), float)
            except Exception as e:
                V("find_uniq_hkls:shape:(3,%d):%s" % (ncol, name), "find_uniq_hkls on a (3,%d) array raised %s: %s"
                  % (ncol, type(e).__name__, e))
                continue
            run.count("hkl_short_lists_checked")
            if b.shape != (3, ncol) or not np.array_equal(b, full[:, sel]):
                V("find_uniq_hkls:short-list:(3,%d):%s" % (ncol, name), "find_uniq_hkls on a (3,%d) %s array gives %r; inside a "
                  "list of %d the same reflections gave %r" % (ncol, tag, b.tolist(), hk.shape[1], full[:, sel].tolist()))
    # custom ranking function (one-to-one on |h| < 1000)
    f2 = lambda h: (h[2] * 2000.0 + h[1]) * 2000.0 + h[0]
    bf = sym_u.find_uniq_hkls(hk.astype(float), grp, func=f2)
    for o in ops:
        if not np.array_equal(sym_u.find_uniq_hkls(o @ hk.astype(float), grp, func=f2), bf):
            V("find_uniq_hkls:func:orbit-dependent:" + name, "func=<other order>: reduction of g.hkl differs from reduction of hkl")
            break
    # ---- indices of 500 and more (still inside the documented |h| < hmax = 1000; the pinned ranking was not one to one
    #      there, repaired in /repo)
    if True:
        big = r.integers(-999, 1000, (3, 400)).astype(float)
        big[2, ::2] = r.choice([500.0, -500.0], 200)
        big[0, 0::4] = -999
        big[1, 0::4] = r.integers(1, 999, 100)
        orb = np.array([o @ big for o in ops])
        ok = np.abs(orb).max(axis=(0, 1)) < 1000
        big = big[:, ok]
        b = sym_u.find_uniq_hkls(big, grp)
        for o in ops:
            b2 = sym_u.find_uniq_hkls(o @ big, grp)
            if not np.array_equal(b2, b):
                col = int(np.nonzero((b2 != b).any(axis=0))[0][0])
                V("find_uniq_hkls:orbit-dependent-beyond-499:" + name,
                  "hkl %r and its equivalent %r reduce to %r and %r (every index of the orbit below 1000)"
                  % (big[:, col].tolist(), (o @ big)[:, col].tolist(), b[:, col].tolist(), b2[:, col].tolist()))
                break


def hkl_slice_sweep(run, sym_u, name, ops, seed, H):
    """every (h, k) with |h|, |k| <= H at a few l: the reduced list must not depend on the orbit member given.  Random lists
    hardly ever contain two equivalents that the ranking function cannot tell apart; a complete slice does if there are any."""
    grp = sym_u.getgroup(name)()
    r = rng(seed, "C16", "slice", name)
    h, k = np.meshgrid(np.arange(-H, H + 1), np.arange(-H, H + 1), indexing="ij")
    for l in (0, 1, H, -H, int(r.integers(-H, H + 1))):
        hk = np.array([h.ravel(), k.ravel(), np.full(h.size, l)], float)
        b = sym_u.find_uniq_hkls(hk, grp)
        run.count("hkl_slice_columns_checked", hk.shape[1])
        run.case(("hkl-slice", name, l, H), nontrivial=len(ops) >= 2)
        for o in ops:
            b2 = sym_u.find_uniq_hkls(o @ hk, grp)
            if not np.array_equal(b2, b):
                col = int(np.nonzero((b2 != b).any(axis=0))[0][0])
                run.violation("find_uniq_hkls:orbit-dependent:" + name,
                              "hkl %r and its equivalent %r reduce to %r and %r"
                              % (hk[:, col].tolist(), (o @ hk)[:, col].tolist(), b[:, col].tolist(), b2[:, col].tolist()),
                              dict(group=name, kind="slice"))
                return


def consumers(run, sym_u, name, ops, seed, idx):
    """refinegrains.makeuniq and grid_index_parallel.uniq_grain_list"""
    from ImageD11 import refinegrains, grain, grid_index_parallel
    r = rng(seed, "C16", "consumers", name, idx)
    cell = conforming_cell(r, name)
    desc = dict(group=name, index=idx, kind="consumers", cell=cell)
    run.case(("consumers", name, idx), nontrivial=len(ops) >= 2)

    def V(key, what):
        run.violation(key, what, desc)

    def gap(m):
        t = sorted(np.trace(o @ m) for o in ops)
        return (t[-1] - t[-2]) if len(t) > 1 else 1.0

    def newubi():
        while True:
            u = np.linalg.inv(xtal.random_rotation(r, "haar") @ xtal.Bmat(cell))
            if gap(u) > 1e-6 * np.abs(u).max():
                return u
    # ---- makeuniq: every stored matrix is replaced by an equivalent one, equivalents become identical, and the grain
    # objects are updated through set_ubi (cached U / cell refreshed)
    ubiA, ubiB = newubi(), newubi()
    scale = np.abs(ubiA).max()
    oa = ops[int(r.integers(len(ops)))]
    ob = ops[int(r.integers(len(ops)))]
    with contextlib.redirect_stdout(io.StringIO()):
        rg = refinegrains.refinegrains()
    inputs = {0: ubiA, 1: oa @ ubiA, 2: ubiB, 3: ob @ ubiB}
    # every second case: the grain objects have been refined since the ubi file was read (the normal state of a
    # refinegrains object: grains[(name, scan)] holds the fitted matrix, ubisread[name] the one from the file), one
    # grain object per scan.  Each grain is then reduced within ITS OWN orbit.
    diverged = bool(idx % 2)
    scans = ("scan", "scan2") if diverged else ("scan",)
    ginputs = {}
    for k, u in inputs.items():
        rg.ubisread[k] = u.copy()
        for sname in scans:
            gu = u.copy()
            if diverged:
                dR = xtal.rot_axis_angle(r.normal(size=3), np.radians(float(r.uniform(0.05, 0.5))))
                gu = ops[int(r.integers(len(ops)))] @ (u @ dR.T) * (1 + float(r.uniform(-2e-3, 2e-3)))
                if gap(gu) <= 1e-6 * np.abs(gu).max():
                    gu = u.copy()
            ginputs[(k, sname)] = gu
            g = grain.grain(gu.copy(), translation=r.uniform(-1, 1, 3))
            g.U, g.unitcell, g.UB          # fill the caches: makeuniq has to refresh them
            rg.grains[(k, sname)] = g
    if diverged:
        run.count("makeuniq_runs_grains_refined_since_read")
    try:
        with contextlib.redirect_stdout(io.StringIO()):
            rg.makeuniq(name)
    except Exception as e:
        V("makeuniq:exception:" + name, "refinegrains.makeuniq(%r) raised %s: %s" % (name, type(e).__name__, e))
    else:
        run.count("makeuniq_runs")
        for k, u in inputs.items():
            orbit = [o @ u for o in ops]
            if not member(orbit, np.asarray(rg.ubisread[k], float), 1e-9 * scale):
                V("makeuniq:not-in-orbit:" + name, "makeuniq: ubisread[%d] is not a symmetry-equivalent of what was stored" % k)
            for sname in scans:
                g = rg.grains[(k, sname)]
                if not member([o @ ginputs[(k, sname)] for o in ops], np.asarray(g.ubi, float), 1e-9 * scale):
                    V("makeuniq:not-in-orbit:" + name, "makeuniq: grains[(%d, %r)] is not a symmetry-equivalent of the matrix "
                      "that grain had%s" % (k, sname, " (refined since the file was read)" if diverged else ""))
                if np.abs(np.linalg.inv(g.UB) - g.ubi).max() > 1e-9 * scale or np.abs(g.U @ g.B - g.UB).max() > 1e-9 / scale:
                    V("makeuniq:stale-cache:" + name, "makeuniq: grain %d still serves U/UB of the matrix it had before" % k)
        for a, b in ((0, 1), (2, 3)):
            bad = np.abs(rg.ubisread[a] - rg.ubisread[b]).max() > 1e-9 * scale
            if not diverged:
                bad = bad or np.abs(rg.grains[(a, "scan")].ubi - rg.grains[(b, "scan")].ubi).max() > 1e-9 * scale or \
                    np.abs(rg.grains[(a, "scan")].ubi - rg.ubisread[a]).max() > 1e-9 * scale
            if bad:
                V("makeuniq:equivalents-differ:" + name, "makeuniq: symmetry-equivalent grains %d and %d are not stored as one matrix" % (a, b))
        # canonical = idempotent: a second reduction changes nothing
        before = {kk: np.array(gg.ubi) for kk, gg in rg.grains.items()}
        with contextlib.redirect_stdout(io.StringIO()):
            rg.makeuniq(name)
        if any(np.abs(rg.grains[kk].ubi - before[kk]).max() > 1e-9 * scale for kk in before):
            V("makeuniq:not-idempotent:" + name, "a second makeuniq(%r) changed a grain's matrix" % name)
    # ---- uniq_grain_list: equivalents at one place are one grain; a rotated or a displaced grain is another one
    tolang, toldist = 0.5, 0.1
    for _ in range(20):
        R = xtal.rot_axis_angle(r.normal(size=3), np.radians(float(r.uniform(2.0, 20.0))))
        ubiB = np.linalg.inv(R @ np.linalg.inv(ubiA))
        if _misorientation(ops, ubiA, ubiB) > 4 * tolang:
            break
    else:
        run.count("uniq_grain_list_skipped")
        return
    tiny = xtal.rot_axis_angle(r.normal(size=3), np.radians(0.01))
    t0 = r.uniform(-1, 1, 3)
    spec = [("A", ubiA, t0), ("A-equivalent", oa @ np.linalg.inv(tiny @ np.linalg.inv(ubiA)), t0 + 0.01),
            ("B-rotated", ubiB, t0), ("A-displaced", ob @ ubiA, t0 + np.array([1.0, 0, 0])),
            ("B-equivalent", ob @ ubiB, t0 - 0.02)]
    order = r.permutation(len(spec)) if idx % 2 else np.arange(len(spec))
    gl = [grain.grain(spec[k][1], translation=spec[k][2]) for k in order]
    # model: greedy, same rule, misorientation from the harness's operators
    kept = []
    for g in gl:
        for kg in kept:
            if ((g.translation - kg[0].translation) ** 2).sum() <= toldist ** 2 and _misorientation(ops, kg[0].ubi, g.ubi) < tolang:
                kg[1] += 1
                break
        else:
            kept.append([g, 1])
    if len(kept) != 3 or [k[1] for k in kept] != ([2, 2, 1] if not idx % 2 else [k[1] for k in kept]):
        # the scenario is built to give three grains; anything else is a flaw of the scenario, not of the code under test
        run.count("uniq_grain_list_scenario_rejected")
        return
    sym_names = [name] + (["trigonalP"] if name == "rhombohedralP" else [])
    for sn in sym_names:
        try:
            with contextlib.redirect_stdout(io.StringIO()):
                ul = grid_index_parallel.uniq_grain_list(sn, toldist, tolang, gl)
        except Exception as e:
            V("uniq_grain_list:exception:" + name, "uniq_grain_list(%r, ...) raised %s: %s" % (sn, type(e).__name__, e))
            continue
        run.count("uniq_grain_list_runs")
        got = [(id(g), g.nfound) for g in ul.uniqgrains]
        want = [(id(k[0]), k[1]) for k in kept]
        if got != want:
            V("uniq_grain_list:" + name, "uniq_grain_list kept %d grains with counts %r, the misorientation model keeps %d with %r"
              % (len(got), [n for _, n in got], len(want), [n for _, n in want]))


def pbp_voxel(run, sym_u, name, ops, seed, idx):
    """point_by_point.idxpoint - the consumer that makes map voxels comparable: every orientation it returns for a voxel must be
    the canonical member of its orbit (a fixed point of find_uniq_u), whether the indexer found one candidate orientation
    at the voxel or several.  Grains are simulated on the rotation axis with the package's own inverse geometry
    (uncompute_g_vectors), so every peak is seen from voxel (0, 0)."""
    import contextlib, io
    import ImageD11.indexing
    from ImageD11 import unitcell, transform, parameters
    from ImageD11.sinograms import point_by_point as pbp
    r = rng(seed, "C16", "pbp", name, idx)
    a = float(r.uniform(3.5, 5.0))
    cell = {"cubic": [a, a, a, 90, 90, 90], "tetragonal": [a, a, a * 1.31, 90, 90, 90],
            "orthorhombic": [a, a * 1.17, a * 1.39, 90, 90, 90], "hexagonal": [a, a, a * 1.6, 90, 90, 120]}[name]
    wvln = 0.3
    uc = unitcell.unitcell(cell, "P")
    dsmax = 1.1 * 4.0 / a
    uc.makerings(dsmax)
    grp = sym_u.getgroup(name)()
    ngr = 1 + idx % 2
    desc = dict(group=name, index=idx, kind="pbp-voxel", cell=cell, grains=ngr)
    run.case(("pbp-voxel", name, idx), nontrivial=True)
    hk = np.array([(h, k, l) for h in range(-6, 7) for k in range(-6, 7) for l in range(-6, 7) if (h, k, l) != (0, 0, 0)], float).T
    cols, Us = [], []
    for g in range(ngr):
        U = xtal.random_rotation(r, "haar")
        Us.append(U)
        gv = (U @ uc.B) @ hk
        gv = gv[:, np.sqrt((gv * gv).sum(axis=0)) < dsmax]
        with np.errstate(invalid="ignore"):
            tth, (e1, e2), (o1, o2) = transform.uncompute_g_vectors(gv, wvln)
        tth, eta, om = np.concatenate((tth, tth)), np.concatenate((e1, e2)), np.concatenate((o1, o2))
        okp = np.isfinite(om) & np.isfinite(eta) & (np.abs(np.sin(np.radians(eta))) > 0.05)
        if g == 1:
            okp &= r.random(len(okp)) < 0.8          # the second grain is weaker
        rt, re = np.radians(tth[okp]), np.radians(eta[okp])
        cols.append((1e5 * np.array((np.cos(rt), -np.sin(rt) * np.sin(re), np.sin(rt) * np.cos(re))), om[okp], eta[okp]))
    xyz = np.concatenate([c[0] for c in cols], axis=1)
    om = np.concatenate([c[1] for c in cols])
    eta = np.concatenate([c[2] for c in cols])
    npk1 = cols[0][0].shape[1]
    saved = (getattr(pbp, "parglobal", None), getattr(pbp, "ucglobal", None), getattr(pbp, "symglobal", None),
             ImageD11.indexing.loglevel)
    pbp.parglobal = parameters.parameters(wavelength=wvln, omegasign=1.0, wedge=0.0, chi=0.0, cell__a=cell[0], cell__b=cell[1],
                                          cell__c=cell[2], cell_alpha=cell[3], cell_beta=cell[4], cell_gamma=cell[5],
                                          **{"cell_lattice_[P,A,B,C,I,F,R]": "P"})
    pbp.ucglobal, pbp.symglobal = uc, grp
    ImageD11.indexing.loglevel = 10
    if idx % 2 == 1:
        # the worker set-up as the package does it: initializer(parfile, phase, symmetry, colfile) - called twice in this
        # process, first for another symmetry (a voxel debugged after a run with the default "cubic"): the second call counts
        import os, shutil, tempfile
        from ImageD11 import columnfile
        from ..common import WORK
        os.makedirs(os.path.join(WORK, "tmp"), exist_ok=True)
        dtmp = tempfile.mkdtemp(prefix="c16p_", dir=os.path.join(WORK, "tmp"))
        try:
            parf, colf = os.path.join(dtmp, "p.par"), os.path.join(dtmp, "pks.h5")
            pbp.parglobal.saveparameters(parf)
            cfp = columnfile.colfile_from_dict({"isel": np.ones(4), "omega": np.arange(4.0)})
            with contextlib.redirect_stdout(io.StringIO()):
                columnfile.colfile_to_hdf(cfp, colf, name="peaks")
                other = "cubic" if name != "cubic" else "hexagonal"
                pbp.initializer(parf, None, other, colf, loglevel=10)
                pbp.initializer(parf, None, name, colf, loglevel=10)
            run.count("pbp_initializer_called_twice")
            if len(pbp.symglobal.group) != len(ops):
                run.violation("initializer:stale-symmetry:" + name, "after initializer(..., %r, ...) following initializer(..., %r, ...) in "
                              "the same process the worker's symmetry group has %d operators, the %s group has %d"
                              % (name, other, len(pbp.symglobal.group), name, len(ops)), desc)
            pbp.ucglobal.makerings(dsmax)
        except Exception as e:
            run.count("pbp_initializer_raised")
            run.extra.setdefault("pbp_initializer_raised", "%s: %s" % (type(e).__name__, str(e)[:200]))
            pbp.ucglobal, pbp.symglobal = uc, grp
        finally:
            try:
                pbp.colglobal = None
            except Exception:
                pass
            shutil.rmtree(dtmp, ignore_errors=True)
    try:
        with contextlib.redirect_stdout(io.StringIO()):
            res = pbp.idxpoint(0, 0, np.ones(len(om), bool), om, np.sin(np.radians(om)), np.cos(np.radians(om)),
                               np.ones(len(om), int), xyz[0].copy(), xyz[1].copy(), xyz[2].copy(), eta, ystep=2.0, y0=0.0,
                               ymin=-2.0, minpks=int(0.4 * npk1), hkl_tol=0.05, ds_tol=0.005,
                               cosine_tol=np.cos(np.radians(90 - 0.1)), forgen=[0, 1], hmax=6, uniqcut=0.75)
    except Exception as e:
        run.count("pbp_voxels_indexer_raised")
        run.extra.setdefault("pbp_voxels_indexer_raised", "%s: %s" % (type(e).__name__, str(e)[:200]))
        return
    finally:
        pbp.parglobal, pbp.ucglobal, pbp.symglobal, ImageD11.indexing.loglevel = saved
    ubis = [np.asarray(t[2], float) for t in res if t[0] > 0]
    run.count("pbp_voxels_indexed")
    run.count("pbp_voxels_returning_%s" % ("one_orientation" if len(ubis) == 1 else ("none" if not ubis else "several_orientations")))
    scale = float(np.abs(np.linalg.inv(uc.B)).max())
    for u in ubis:
        run.count("pbp_orientations_checked")
        red = np.asarray(sym_u.find_uniq_u(u, grp), float)
        if np.abs(red - u).max() > 1e-9 * scale:
            run.violation("idxpoint:not-canonical:" + name, "point_by_point.idxpoint returned an orientation (trace %.4f) that is "
                          "not the canonical member of its orbit (find_uniq_u gives trace %.4f); the voxel had %d candidate "
                          "orientation(s)" % (np.trace(u), np.trace(red), len(ubis)), desc)


def check(run, replay=None):
    from ImageD11 import sym_u
    if not hasattr(sym_u, "getgroup"):
        run.inconc("sym_u.getgroup missing")
        return
    names = list(ORDERS)
    r = rng(run.seed, "C16", "cells")
    allops = {}
    for name in names:
        allops[name] = group_axioms(run, sym_u, name, "first")
    # cache independence: clear and rebuild in reverse order
    sym_u.symcache.clear()
    for name in names[::-1]:
        ops2 = group_axioms(run, sym_u, name, "after-cache-clear-reverse")
        if len(ops2) != len(allops[name]) or not all(member(allops[name], o) for o in ops2):
            run.violation("group:cache-dependent:" + name, "group differs after clearing the generator cache", dict(group=name))
    ok = {}
    for name in names:
        ok[name] = metric_preserved(run, name, allops[name], r, 20 if run.tier == "quick" else 200)
    run.exhaustive = None
    run.extra["group_axioms_exhaustive"] = True
    run.extra["group_orders"] = {n: len(allops[n]) for n in names}
    nred = 200 if run.tier == "quick" else 20000
    if replay is not None:
        cs = replay["case"]
        if "index" in cs:
            fn = {"extra": reduction_extra, "consumers": consumers, "pbp-voxel": pbp_voxel}.get(cs.get("kind"), reduction)
            fn(run, sym_u, cs["group"], allops[cs["group"]], replay["seed"], cs["index"])
        return
    # names that are not groups must be refused, the alias must be the same group
    for bad in ("nonsense", "Cubic", "", "trigonalP "):
        try:
            sym_u.getgroup(bad)
            run.violation("getgroup:unknown-name-accepted", "getgroup(%r) did not raise" % bad, dict(name=bad))
        except Exception:
            run.count("getgroup_unknown_refused")
    tp = [np.array(o, float) for o in sym_u.trigonalP().group]
    if len(tp) != len(allops["rhombohedralP"]) or not all(member(allops["rhombohedralP"], o) for o in tp):
        run.violation("group:alias:trigonalP", "trigonalP is not the rhombohedralP group", dict(group="trigonalP"))
    nextra, ncons = (60, 12) if run.tier == "quick" else (3000, 300)
    for name in names:
        for idx in range(nred):
            reduction(run, sym_u, name, allops[name], run.seed, idx)
        for idx in range(nextra):
            reduction_extra(run, sym_u, name, allops[name], run.seed, idx)
        for idx in range(ncons):
            consumers(run, sym_u, name, allops[name], run.seed, idx)
        hkl_slice_sweep(run, sym_u, name, allops[name], run.seed, 100 if run.tier == "quick" else 249)
    for name in ("cubic", "tetragonal", "orthorhombic", "hexagonal"):
        for idx in range(4 if run.tier == "quick" else 40):
            pbp_voxel(run, sym_u, name, allops[name], run.seed, idx)
    # the cached group objects must not have been changed by all that use
    for name in names:
        now = sym_u.getgroup(name)().group
        if len(now) != len(allops[name]) or not all(np.array_equal(np.asarray(a, float), b) for a, b in zip(now, allops[name])):
            run.violation("group:changed-by-use:" + name, "operators of the cached group differ after the reductions", dict(group=name))
        else:
            run.count("groups_unchanged_after_use")
    run.require_counter("group_products_checked", 1000)
    run.require_counter("orbit_members_checked", 1000)
    run.require_counter("strained_reductions_checked", 300)
    run.require_counter("custom_func_reductions_checked", 200)
    run.require_counter("constructed_tie_reductions_checked", 100)
    run.require_counter("hkl_lists_checked_int", 300)
    run.require_counter("hkl_shapes_checked", 900)
    run.require_counter("hkl_slice_columns_checked", 1000000)
    run.require_counter("makeuniq_runs", 100)
    run.require_counter("pbp_voxels_returning_one_orientation", 3)
    run.require_counter("pbp_orientations_checked", 8)
    run.require_counter("pbp_initializer_called_twice", 4)
    run.require_counter("uniq_grain_list_runs", 100)
    run.require_counter("getgroup_unknown_refused", 4)
    run.require_counter("groups_unchanged_after_use", 10)


# workloads added in seeding rounds 7-10 (DESIGN.md sections 13.9-13.12)
LEVEL_TEXT = LEVEL_TEXT + ' Later additions: makeuniq on grains refined since the ubi file was read (two scans per grain); hkl lists as float32 / int16 with orbit members that differ in one small index; lists of 2-4 reflections; point_by_point.idxpoint on simulated on-axis voxels of four lattice systems.'
LEVEL_TEXT = LEVEL_TEXT + ' Round 11: point_by_point.initializer called twice in one process with different symmetries.'
