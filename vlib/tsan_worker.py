"""Workload executed under LD_PRELOAD=libtsan.so (see tsan_inventory.py)."""
import ctypes as C, json, os, sys
import numpy as np
from .common import rng


def ptr(a):
    return a.ctypes.data_as(C.c_void_p)


def main():
    kernel, nimg, seed = sys.argv[1], int(sys.argv[2]), int(sys.argv[3])
    lib = C.CDLL(os.environ["VERIF_TSAN_LIB"])
    runs = 0
    if kernel == "localmaxlabel":
        from .checks import c13
        lib.localmaxlabel.restype = C.c_int
        lib.localmaxlabel.argtypes = [C.c_void_p] * 3 + [C.c_int, C.c_int]
        for idx in range(nimg):
            r = rng(seed, "C13", "tsan", idx)
            shape = [(16, 16), (40, 33), (64, 64)][idx % 3]
            img = c13.gen_image(r, shape, c13.CLASSES[idx % len(c13.CLASSES)])
            for nt in (2, 4, 8):
                lib.omp_set_num_threads(nt)
                lab = np.zeros(shape, np.int32)
                wrk = np.zeros(shape, np.uint8)
                lib.localmaxlabel(ptr(img), ptr(lab), ptr(wrk), shape[0], shape[1])
                runs += 1
    elif kernel == "score_and_assign":
        lib.score_and_assign.restype = C.c_int
        lib.score_and_assign.argtypes = [C.c_void_p, C.c_void_p, C.c_double, C.c_void_p, C.c_void_p, C.c_int, C.c_int]
        for idx in range(nimg):
            r = rng(seed, "C07", "tsan", idx)
            n = [100, 4097, 9000][idx % 3]
            gv = np.ascontiguousarray(r.uniform(-1, 1, (n, 3)))
            drlv2 = np.full(n, 2.0)
            labels = np.full(n, -1, np.int32)
            for g in range(4):
                ubi = np.ascontiguousarray(r.uniform(-4, 4, (3, 3)))
                for nt in (2, 4, 8):
                    lib.omp_set_num_threads(nt)
                    lib.score_and_assign(ptr(ubi), ptr(gv), 0.3, ptr(drlv2), ptr(labels), g, n)
                    runs += 1
    elif kernel == "connectedpixels":
        lib.v_connectedpixels.restype = C.c_int
        lib.v_connectedpixels.argtypes = [C.c_void_p, C.c_void_p, C.c_float, C.c_int, C.c_int, C.c_int, C.c_int]
        for idx in range(nimg):
            r = rng(seed, "C11", "tsan", idx)
            shape = [(16, 16), (40, 33), (64, 64)][idx % 3]
            img = (r.random(shape) * 10).astype(np.float32)
            for nt in (2, 4, 8):
                lib.omp_set_num_threads(nt)
                lab = np.zeros(shape, np.int32)
                lib.v_connectedpixels(ptr(img), ptr(lab), 5.0, 0, 1, shape[0], shape[1])
                runs += 1
    elif kernel == "compute_gv":
        lib.compute_gv.restype = None
        lib.compute_gv.argtypes = [C.c_void_p, C.c_void_p] + [C.c_double] * 5 + [C.c_void_p, C.c_void_p, C.c_int]
        lib.compute_geometry.restype = None
        lib.compute_geometry.argtypes = lib.compute_gv.argtypes
        for idx in range(nimg):
            r = rng(seed, "C01", "tsan", idx)
            n = [10, 1000, 5000][idx % 3]
            xyz = np.ascontiguousarray(r.uniform(1e4, 1e5, (n, 3)))
            om = r.uniform(-180, 180, n)
            t = r.uniform(-100, 100, 3)
            for nt in (2, 4, 8):
                lib.omp_set_num_threads(nt)
                gv = np.zeros((n, 3))
                lib.compute_gv(ptr(xyz), ptr(om), 1.0, 0.3, 2.0, 3.0, ptr(t), ptr(gv), n)
                out = np.zeros((n, 6))
                lib.compute_geometry(ptr(xyz), ptr(om), 1.0, 0.3, 2.0, 3.0, ptr(t), ptr(out), n)
                runs += 2
    print(json.dumps(dict(runs=runs)))


if __name__ == "__main__":
    main()
