#!/bin/bash
# tools/reseed.sh <seed name> : re-run the quick check of the seed's property against the kept seeded change (scratch copy)
n=$1
p=$(/venv/bin/python -c "import json;print(json.load(open('/verif/seeded/$n/meta.json'))['breaks_property'])")
d=/tmp/sr_$n; rm -rf $d; mkdir -p $d; if [ -f /verif/seeded/$n/patch_rebased.diff ]; then cp /verif/seeded/$n/patch_rebased.diff $d/patch.diff; else cp /verif/seeded/$n/patch.diff $d/; fi
out=$(/verif/tools/seedrun2.sh $p $d 2>&1 | tail -1 | cut -c1-220)
echo "$n :: $out"
rm -rf $d
