#!/bin/bash
# tools/mut.sh <name> <check...> : run checks against scratch copy /tmp/mut_<name> (created by: tools/mut.sh new <name>)
# usage: tools/mut.sh new NAME      -> creates scratch copy of /repo (ImageD11, src, setup.py, README.md, scripts)
#        tools/mut.sh run NAME C01 [args] -> runs ./check against it
#        tools/mut.sh rm NAME
set -e
cmd=$1; name=$2; shift 2 || true
d=/tmp/mut_$name
case $cmd in
 new) rm -rf $d; mkdir -p $d; cp -r /repo/ImageD11 /repo/src /repo/setup.py /repo/README.md /repo/scripts $d/; rm -f $d/ImageD11/_cImageD11*.so; echo $d;;
 run) VERIF_NO_EVIDENCE=1 VERIF_REPO=$d /verif/check "$@";;
 rm) rm -rf $d;;
esac
