#!/bin/bash
# tools/seedrun.sh <PROP> <seed_dir> [extra checks]: apply to /repo, run checks, revert
P=$1; D=$2; shift 2
cd /verif
if ! git -C /repo diff --quiet; then echo "/repo is dirty, not applying"; exit 7; fi
git -C /repo apply $D/patch.diff || exit 6
trap 'git -C /repo checkout -- . ' EXIT
for c in $P "$@"; do
  ./check $c --tier quick > $D/check_$c.log 2>&1; echo "check $c rc=$? : $(grep -c '^VIOLATION' $D/check_$c.log) violation lines; keys: $(grep 'witness key' $D/check_$c.log | sed 's/.*witness key=\([^ ]*\): .*/\1/' | sort -u | head -6 | tr '\n' ' ')"
done
git -C /repo checkout -- .
trap - EXIT
