#!/venv/bin/python
"""tools/kf.py add <property> <key> <status known|fixed> <commit|-> <what...>"""
import json, sys, os
p = os.path.join(os.path.dirname(os.path.dirname(os.path.abspath(__file__))), "known_findings.json")
d = json.load(open(p))
_, cmd, prop, key, status, commit = sys.argv[:6]
what = " ".join(sys.argv[6:])
e = {"property": prop, "key": key, "status": status, "what": what}
if commit != "-":
    e["commit"] = commit
if status == "fixed":
    e["line"] = "fixed: property=%s %s %s" % (prop, commit, what)
d["findings"] = [x for x in d["findings"] if not (x["property"] == prop and x["key"] == key)] + [e]
json.dump(d, open(p, "w"), indent=1)
