#!/bin/bash
# tools/seedrun2.sh <PROP> <seed_dir> [extra checks]: like seedrun.sh but on a scratch copy of /repo (VERIF_REPO), so that
# other work using /repo is not disturbed.  The copy is removed afterwards.
P=$1; D=$2; shift 2
N=s_$(basename $D)
cd /verif
tools/mut.sh new $N > /dev/null
(cd /tmp/mut_$N && patch -p1 -s < $D/patch.diff) || { echo "PATCH DOES NOT APPLY"; tools/mut.sh rm $N; exit 6; }
for c in $P "$@"; do
  tools/mut.sh run $N $c --tier quick > $D/check_$c.log 2>&1; echo "check $c rc=$? : $(grep -c '^VIOLATION' $D/check_$c.log) violation lines; keys: $(grep 'witness key' $D/check_$c.log | sed 's/.*witness key=\([^ ]*\): .*/\1/' | sort -u | head -6 | tr '\n' ' ')"
done
tools/mut.sh rm $N
