#!/bin/bash
# tools/keepseed.sh <PROP> <seed_dir> <name> "<caught by>"  : copy a confirmed seeded change into /verif/seeded/<name>/
P=$1; D=$2; N=$3; CAUGHT=$4
mkdir -p /verif/seeded/$N
cp $D/patch.diff $D/demo.py /verif/seeded/$N/
/venv/bin/python - "$P" "$D" "$N" "$CAUGHT" <<'PY'
import json,sys,os,re
P,D,N,CAUGHT=sys.argv[1:5]
m=json.load(open(os.path.join(D,'meta.json')))
suite=open(os.path.join(D,'suite.txt')).read().strip() if os.path.exists(os.path.join(D,'suite.txt')) else ''
checks={}
for f in os.listdir(D):
    if f.startswith('check_') and f.endswith('.log'):
        txt=open(os.path.join(D,f)).read()
        keys=sorted(set(re.findall(r'witness key=(\S+?): ',txt)))
        checks[f[6:-4]]=dict(violation_lines=txt.count('\nVIOLATION')+txt.startswith('VIOLATION'), keys=keys[:12])
m.update(dict(breaks_property=P, confirmed=dict(
    ran=["demo.py on a fresh worktree of /repo HEAD (exit 0)", "demo.py with patch.diff applied (exit non-zero)",
         "pinned pytest suite with the patch applied: "+suite,
         "git -C /repo apply patch.diff; ./check <id> --tier quick; git -C /repo checkout -- ."],
    checks=checks), caught_by=CAUGHT))
json.dump(m,open('/verif/seeded/%s/meta.json'%N,'w'),indent=1)
print(json.dumps(m['confirmed']['checks']))
PY
