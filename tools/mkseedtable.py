#!/venv/bin/python
"""Rewrite the seeded-change table in DESIGN.md (between the SEEDTABLE markers) from seeded/*/meta.json"""
import json, glob, os, re
HERE = os.path.dirname(os.path.dirname(os.path.abspath(__file__)))
rows = []
for d in sorted(glob.glob(os.path.join(HERE, "seeded", "*"))):
    m = json.load(open(os.path.join(d, "meta.json")))
    rows.append((os.path.basename(d), m["breaks_property"], m["summary"], m["needs"], m["caught_by"]))
tab = "| seeded change | property | what was changed | needs, to manifest | caught by |\n|---|---|---|---|---|\n"
for r in rows:
    tab += "| `%s` | %s | %s | %s | %s |\n" % (r[0], r[1], r[2].replace("|", "\\|").replace("\n", " ")[:300],
                                           r[3].replace("|", "\\|").replace("\n", " ")[:320], r[4].replace("|", "\\|"))
p = os.path.join(HERE, "DESIGN.md")
s = open(p).read()
a, b = "<!-- SEEDTABLE-BEGIN -->", "<!-- SEEDTABLE-END -->"
if a in s:
    s = s[:s.index(a) + len(a)] + "\n" + tab + s[s.index(b):]
    open(p, "w").write(s)
print(len(rows), "seeds")
