#!/venv/bin/python
"""Regenerate MANIFEST.json from the table below (only implemented checks are
claimed; the others are listed under not_applicable with the reason)."""
import json, os, sys
HERE = os.path.dirname(os.path.dirname(os.path.abspath(__file__)))

import importlib
sys.path.insert(0, HERE)


def meta(c):
    try:
        m = importlib.import_module("vlib.checks." + c.lower())
    except ImportError:
        return None
    if not hasattr(m, "TECHNIQUE"):
        return None
    return (m.TECHNIQUE, m.LEVEL_TEXT, m.LEVEL_NOTE, "DESIGN.md section 4 " + c)


ALL = ["C%02d" % i for i in range(1, 21)]


def main():
    CHECKS = {c: meta(c) for c in ALL}
    impl = [c for c in ALL if CHECKS[c] is not None]
    checks = []
    for c in impl:
        tech, text, note, ref = CHECKS[c]
        checks.append({
            "property_id": c,
            "quick_cmd": "./check %s --tier quick" % c,
            "thorough_cmd": "./check %s --tier thorough" % c,
            "evidence_file": "evidence/%s.json" % c,
            "replay_cmd_template": "./check %s --replay {path}" % c,
            "engine": "harness",
            "level_claimed": {"category": "exploration", "text": text, "design_ref": ref},
            "level_note": note,
            "technique": tech,
        })
    na = [{"property_id": c, "reason": "check not built yet in this round (planned, see DESIGN.md section 10); not claimed until its monitor exists"}
          for c in ALL if c not in impl]
    m = {
        "version": 1,
        "setup_cmd": "/venv/bin/python -m vlib.build all",
        "hooks": {
            "guard": "IMAGED11_VERIF",
            "enable": "no in-source hooks: checks rebuild /repo/src out of tree (plain and sanitizer flavours) and observe at API boundaries; IMAGED11_VERIF is reserved and unused",
            "baseline_off_cmd": "cd /repo && /venv/bin/python -m pytest -ra -q -p no:cacheprovider --timeout=900 --continue-on-collection-errors",
            "source_commits": [],
            "add_only": True,
        },
        "engines": [
            {"name": "build", "path": "vlib/build.py", "serves_properties": impl,
             "kind_free_text": "rebuilds the f2py module (plain, ASan+UBSan) and kernel libraries (plain/asan/avi0/aviP/tsan/sched) from /repo's working tree, overlay package on PYTHONPATH"},
            {"name": "harness", "path": "vlib/", "serves_properties": impl,
             "kind_free_text": "generators, reference models, online monitors, three-valued verdicts, evidence writer"},
        ],
        "checks": checks,
        "not_applicable": na,
        "notes": "Runtime monitoring and sanitizers only. Exit 0 held / 1 violation / 2 inconclusive. Known findings in known_findings.json (keyed by mechanism).",
    }
    with open(os.path.join(HERE, "MANIFEST.json"), "w") as f:
        json.dump(m, f, indent=1)
    print("claimed:", impl)


if __name__ == "__main__":
    main()
