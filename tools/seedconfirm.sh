#!/bin/bash
# tools/seedcheck.sh <PROP> <seed_dir> [extra check ids...]
# 1. confirms the seeded change in a scratch worktree: demo fails with it / passes without it, pinned suite still 179 passed
# 2. applies it to /repo, runs ./check <PROP> (quick) [+ extra], reverts /repo
set -u
P=$1; D=$2; shift 2
WT=/tmp/sv_$P
LOG=$D/confirm.log
: > $LOG
git -C /repo worktree remove --force $WT >/dev/null 2>&1
git -C /repo worktree add -q --detach $WT HEAD || exit 9
cchg=$(grep -c '^+++ b/src/' $D/patch.diff)
build() { (cd $WT && /venv/bin/python setup.py build_ext --inplace >> $LOG 2>&1); }
build
echo "== demo on original tree" | tee -a $LOG
(cd $D && PYTHONPATH=$WT timeout 900 /venv/bin/python demo.py >> $LOG 2>&1); rc0=$?
git -C $WT apply $D/patch.diff || { echo "PATCH DOES NOT APPLY"; exit 8; }
[ "$cchg" != "0" ] && build
echo "== demo on changed tree" | tee -a $LOG
(cd $D && PYTHONPATH=$WT timeout 900 /venv/bin/python demo.py >> $LOG 2>&1); rc1=$?
echo "== test suite on changed tree" | tee -a $LOG
(cd $WT && PYTHONPATH=$WT /venv/bin/python -m pytest -q -p no:cacheprovider --timeout=900 --continue-on-collection-errors test 2>&1 | tail -3) | tee -a $LOG | tail -1 > $D/suite.txt
echo "demo original rc=$rc0 (want 0); demo changed rc=$rc1 (want !=0); suite: $(cat $D/suite.txt)"
git -C /repo worktree remove --force $WT
rm -rf $WT
exit 0
